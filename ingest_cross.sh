#!/bin/bash
# usage: ingest_cross.sh <Sx> <k> <Cxx> <Cyy> <Czz>  -- like ingest_mutant.sh for a cross-cutting seeded change (round 5):
# the change lives in /tmp/mut/out5_<Sx>/m<k>.*; every check of the set is run; the id is X<x>-r5m<k> and the
# property recorded is the one the author's demo checks (m<k>.json "property"), falling back to the first of the set.
set -u
S="$1"; K="$2"; shift 2; PROPS="$*"
SRC=/tmp/mut/out5_$S; ID="X${S#S}-r5m${K}"
WT=/tmp/mut/verify_$ID
[ -f "$SRC/m$K.diff" ] || { echo "$ID: no diff"; exit 2; }
git -C /repo worktree add -q --detach "$WT" HEAD || exit 2
cd "$WT"
R_CLEAN=$(PYTHONPATH=$WT timeout 300 /venv/bin/python "$SRC/m${K}_demo.py" >/dev/null 2>&1; echo $?)
if ! git apply "$SRC/m$K.diff"; then echo "$ID: patch does not apply"; cd /; git -C /repo worktree remove --force "$WT"; exit 2; fi
R_MUT=$(PYTHONPATH=$WT timeout 300 /venv/bin/python "$SRC/m${K}_demo.py" >/dev/null 2>&1; echo $?)
SUITE=$(PYTHONPATH=$WT timeout 1500 /venv/bin/python -m pytest -q -p no:cacheprovider --timeout=900 2>&1 | tail -1)
RES=""
for p in $PROPS; do
  o=$(cd /verif && VERIF_REPO=$WT timeout 2400 ./check "$p" 2>&1 | grep -E "VIOLATION|KNOWN|HARNESS|Traceback|quick seed" | head -6)
  RES="$RES== $p"$'\n'"$o"$'\n'
done
cd /; git -C /repo worktree remove --force "$WT"
OUT=/verif/seeded/$ID
mkdir -p "$OUT"; cp "$SRC/m$K.diff" "$OUT/patch.diff"; cp "$SRC/m${K}_demo.py" "$OUT/demo.py"; [ -f "$SRC/m$K.json" ] && cp "$SRC/m$K.json" "$OUT/author.json"
python3 - "$ID" "$PROPS" "$R_CLEAN" "$R_MUT" "$SUITE" "$RES" <<'PY'
import json,sys,os,re
ID,props,rc,rm,suite,res=sys.argv[1:7]
props=props.split()
out=f"/verif/seeded/{ID}"
author={}
if os.path.exists(out+"/author.json"):
    try: author=json.load(open(out+"/author.json"))
    except Exception: author={}
    os.remove(out+"/author.json")
prop=author.get("property") if author.get("property") in props else props[0]
blocks={}
cur=None
for l in res.splitlines():
    if l.startswith("== "): cur=l[3:]; blocks[cur]=[]
    elif l.strip() and cur: blocks[cur].append(l)
reported=[p for p,ls in blocks.items() if any("VIOLATION property=" in l for l in ls)]
meta={"id":ID,"property":prop,"set":props,"also_breaks":author.get("also_breaks"),"summary":author.get("summary"),"site":author.get("site"),"needs":author.get("needs"),
      "confirmed":{"demo_exit_on_clean_tree":int(rc),"demo_exit_with_change":int(rm),"suite_with_change":suite},
      "ran":"ingest_cross.sh: scratch worktree of /repo; demo on clean tree and with the change; whole pytest suite with the change; ./check for every property of the set with VERIF_REPO pointing at the changed worktree",
      "check_output":blocks.get(prop,[]),"other_checks":{p:ls for p,ls in blocks.items() if p!=prop},
      "reported_by":reported,
      "detected":prop in reported}
if not meta["detected"] and reported:
    meta["detected_by"]=reported[0]
json.dump(meta,open(out+"/meta.json","w"),indent=1)
print(ID, "prop", prop, "demo clean/mutant", rc, rm, "|", suite, "| reported by", reported or "NONE")
PY
