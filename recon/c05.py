from common import *
import numpy as np
from preflibtools.properties.subdomains.consecutive_ones import solve_consecutive_ones, isC1P
from preflibtools.properties.subdomains.dichotomous import *
random.seed(10)
def rows_consecutive(M, order):
    for r in M:
        idx=[i for i,c in enumerate(order) if r[c]==1]
        if idx and idx[-1]-idx[0]!=len(idx)-1: return False
    return True
def brute_c1p(M):
    nc=len(M[0]) if len(M) else 0
    return any(rows_consecutive(M,p) for p in itertools.permutations(range(nc)))
bad={}; n=0;npos=0
for t in range(6000):
    nr=random.randint(1,6); nc=random.randint(1,6)
    dens=random.choice([0.2,0.5,0.8])
    M=[[1 if random.random()<dens else 0 for _ in range(nc)] for _ in range(nr)]
    if random.random()<0.3 and nr>1: M[random.randrange(nr)]=M[random.randrange(nr)][:]
    if random.random()<0.3 and nc>1:
        a,b=random.randrange(nc),random.randrange(nc)
        for r in M: r[a]=r[b]
    truth=brute_c1p(M); n+=1; npos+=truth
    A=np.array(M,dtype=int)
    try: res,order=solve_consecutive_ones(A)
    except Exception as e: res,order='EXC:'+type(e).__name__+str(e)[:40],None
    if res is True:
        ok=sorted(order)==list(range(nc)) and rows_consecutive(M,order)
        if not(truth and ok): bad.setdefault(('solve-true-bad',truth,sorted(order)==list(range(nc))),[]).append((M,order))
    elif res is False:
        if truth: bad.setdefault(('solve-false-neg',),[]).append((M,))
    else: bad.setdefault((res,),[]).append((M,))
    try: r2=isC1P(A)
    except Exception as e: r2='EXC:'+type(e).__name__+str(e)[:40]
    if r2!=truth: bad.setdefault(('isC1P',r2,truth),[]).append((M,))
print(n,npos)
for k,v in bad.items(): print(k,len(v),min(v,key=lambda x:(len(x[0])*len(x[0][0]),)))
