from common import *
from preflibtools.properties.subdomains.dichotomous import *
random.seed(11)
def mk_cat(ballots, alts):
    inst=CategoricalInstance()
    inst.num_categories=1; inst.categories_name={1:'Approved'}
    inst.alternatives_name={a:'A%d'%a for a in alts}; inst.num_alternatives=len(alts)
    for b in ballots:
        p=(tuple(b),)
        if p in inst.multiplicity: inst.multiplicity[p]+=1
        else: inst.preferences.append(p); inst.multiplicity[p]=1
    inst.recompute_cardinality_param()
    return inst
def interval(sub, order):
    idx=sorted(order.index(a) for a in sub)
    return not idx or idx[-1]-idx[0]==len(idx)-1
def prefsuf(sub, order):
    idx=sorted(order.index(a) for a in sub)
    return not idx or (interval(sub,order) and (idx[0]==0 or idx[-1]==len(order)-1))
bad={}; n=0
def rec(name, *info): bad.setdefault(name,[]).append(info)
for t in range(3000):
    m=random.randint(1,5); alts=random.sample(range(1,9),m)
    nb=random.randint(1,5)
    ballots=[]
    for _ in range(nb):
        k=random.choice([0,1,2,m,random.randint(0,m)])
        ballots.append(random.sample(alts,min(k,m)))
    inst=mk_cat(ballots,alts); n+=1
    B=[list(p[0]) for p in inst.preferences]; nbu=len(B)
    # CI
    t_ci=[o for o in itertools.permutations(alts) if all(interval(b,list(o)) for b in B)]
    t_cei=[o for o in itertools.permutations(alts) if all(prefsuf(b,list(o)) for b in B)]
    def vi_ok(vo): return all(interval([i for i in vo if a in B[i]], list(vo)) for a in alts)
    def vei_ok(vo): return all(prefsuf([i for i in vo if a in B[i]], list(vo)) for a in alts)
    def wsc_ok(vo): return all(interval([i for i in vo if a in B[i] and b not in B[i]], list(vo)) for a in alts for b in alts if a!=b)
    t_vi=any(vi_ok(vo) for vo in itertools.permutations(range(nbu)))
    t_vei=any(vei_ok(vo) for vo in itertools.permutations(range(nbu)))
    t_wsc=any(wsc_ok(vo) for vo in itertools.permutations(range(nbu)))
    for nm,f,truth,chk,univ in [('ci',is_candidate_interval,bool(t_ci),lambda w: all(interval(b,w) for b in B),alts),
                           ('cei',is_candidate_extremal_interval,bool(t_cei),lambda w: all(prefsuf(b,w) for b in B),alts),
                           ('vi',is_voter_interval,t_vi,vi_ok,list(range(nbu))),
                           ('vei',is_voter_extremal_interval,t_vei,vei_ok,list(range(nbu))),
                           ('wsc',is_weakly_single_crossing,t_wsc,wsc_ok,list(range(nbu)))]:
        try: r,w=f(inst)
        except Exception as e: rec((nm,'EXC',type(e).__name__+str(e)[:40]),B,alts); continue
        if r!=truth: rec((nm,'verdict',r,truth),B,alts)
        elif r and not (sorted(w)==sorted(univ) and chk(list(w))): rec((nm,'witness'),B,alts,w)
    try:
        r=is_dichotomous_euclidean(inst)
        if r[0]!=bool(t_ci): rec(('de','verdict'),B,alts)
        elif r[0]:
            vp,ap=r[1]
            ok=all(set(a for a in alts if abs(ap[a]-vp[i][0])<=vp[i][1])==set(B[i]) for i in range(nbu)) and len(set(ap.values()))==m
            if not ok: rec(('de','witness'),B,alts,r[1])
    except Exception as e: rec(('de','EXC',type(e).__name__+str(e)[:40]),B,alts)
    # part
    nonempty=all(len(b)>0 for b in B)
    if nonempty:
        ds=[set(b) for b in B]; dist=[]
        for s in ds:
            if s not in dist: dist.append(s)
        t_part=all(not(a&b) for a,b in itertools.combinations(dist,2))
        t_2=t_part and (len(dist)==1 or (len(dist)==2 and dist[0]|dist[1]==set(alts)))
        r=is_part(inst)
        if r[0]!=t_part: rec(('part',r[0],t_part),B,alts)
        r=is_2_part(inst)
        if r[0]!=t_2: rec(('2part',r[0],t_2),B,alts)
print(n)
for k,v in bad.items(): print(k,len(v),min(v,key=lambda x:(len(x[1]),len(x[0]))))
