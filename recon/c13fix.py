from common import *
import preflibtools.properties.subdomains.ordinal.singlepeaked.single_peaked_tree as T
from c13 import brute_spt, is_tree, spt_ok

def get_B(profile, alt_set, alternative):
    B_a = None
    for i in T.restrict_preferences(profile, alt_set):
        if alternative == i[0]:
            B_i = {i[1]} if len(i) > 1 else set()
        else:
            B_i = set(i[: i.index(alternative)])
        B_a = B_i if B_a is None else B_a.intersection(B_i)
    return B_a if B_a is not None else set()

def is_spt(instance):
    C_set = set(instance.alternatives_name)
    orders = [o for o, m in instance.flatten_strict()]
    tree = []
    while len(C_set) >= 3:
        L_set = T.get_bottom_alts(T.restrict_preferences(orders, C_set))
        for a in L_set:
            if len(C_set) < 3:
                break
            B_a = get_B(orders, C_set, a)
            if B_a:
                b = B_a.__iter__().__next__()
                tree.append((b, a)); C_set.remove(a)
            else:
                return False, None
    if len(C_set) == 2:
        a, b = C_set
        tree.append((a, b))
    return True, tree
random.seed(4)
bad={}; n=0
for m in range(1,6):
    alts=list(range(1,m+1)); perms=list(itertools.permutations(alts))
    for t in range(2500 if m>2 else 30):
        os_=random.sample(perms, random.randint(1,min(len(perms),6)))
        inst=mk_ord([(strict(o),1) for o in os_]); n+=1
        truth=brute_spt(os_)
        res,tree=is_spt(inst)
        if res:
            if not(truth and is_tree(alts,tree) and spt_ok(os_,tree)): bad.setdefault(('true-bad',truth),[]).append((os_,tree))
        elif truth: bad.setdefault(('false-neg',),[]).append((os_,))
print(n)
for k,v in bad.items(): print(k,len(v),min(v,key=lambda x:(len(x[0][0]),len(x[0]))))
