from common import *
from preflibtools.properties.subdomains.ordinal.singlepeaked.singlepeakedness import *
from preflibtools.properties.subdomains.ordinal.singlepeaked.k_alternative_deletion import k_alternative_deletion
from c11lib import weak_axis_ok, rand_weak
random.seed(6)
def restrict(os_, keep):
    return [tuple(c2 for c2 in (tuple(a for a in c if a in keep) for c in o) if c2) for o in os_]
def min_alt_del(os_, alts):
    for k in range(0,len(alts)+1):
        for D in itertools.combinations(alts,k):
            keep=[a for a in alts if a not in D]
            r=restrict(os_,keep)
            if any(weak_axis_ok(r,ax) for ax in itertools.permutations(keep)): return k
def min_vot_del(os_, alts):
    for k in range(0,len(os_)+1):
        for D in itertools.combinations(range(len(os_)),k):
            r=[o for i,o in enumerate(os_) if i not in D]
            if not r or any(weak_axis_ok(r,ax) for ax in itertools.permutations(alts)): return k
bad={}; n=0
for weak in (False,True):
  for m in range(2,6):
    alts=list(range(1,m+1))
    for t in range(40):
        if weak: os_=list(dict.fromkeys(rand_weak(alts) for _ in range(random.randint(1,4))))
        else: os_=list(dict.fromkeys(strict(random.sample(alts,m)) for _ in range(random.randint(1,5))))
        inst=mk_ord([(o,random.randint(1,2)) for o in os_])
        if weak and inst.data_type!='toc': continue
        n+=1
        ta=min_alt_del(os_,alts); tv=min_vot_del(os_,alts)
        try:
            with quiet(): val,st,ax,dl=approx_SP_voter_deletion_ILP(inst)
            ok = (round(val)==tv)
            cert=None
            if ok and ax is not None:
                keepv=[o for i,o in enumerate(os_) if str(i) not in dl]
                cert = len(dl)==tv and sorted(ax)==alts and weak_axis_ok(keepv,ax)
            if not ok: bad.setdefault(('votdel-value',weak),[]).append((os_,val,tv))
            elif not cert: bad.setdefault(('votdel-cert',weak),[]).append((os_,val,ax,dl))
        except Exception as e: bad.setdefault(('votdel-exc',weak,type(e).__name__+str(e)[:40]),[]).append((os_,))
        try:
            with quiet(): val,st,ax,dl=approx_SP_alternative_deletion_ILP(inst)
            ok=(round(val)==ta)
            if not ok: bad.setdefault(('altdel-value',weak),[]).append((os_,val,ta))
            else:
                idx2alt=list(inst.alternatives_name)
                D=[idx2alt[int(s)] for s in dl]
                keep=[a for a in alts if a not in D]
                axr=[a for a in ax if a in keep]
                cert=len(D)==ta and sorted(ax)==alts and weak_axis_ok(restrict(os_,keep),axr)
                if not cert: bad.setdefault(('altdel-cert',weak),[]).append((os_,val,ax,dl))
        except Exception as e: bad.setdefault(('altdel-exc',weak,type(e).__name__+str(e)[:40]),[]).append((os_,))
        if not weak:
            try:
                ax,rem=k_alternative_deletion(inst)
                keep=[a for a in alts if a not in rem]
                flat=[tuple(c[0] for c in o) for o in os_]
                okc = sorted(ax)==sorted(keep) and sp_axis_ok([tuple(a for a in o if a in keep) for o in flat], ax) if keep else True
                if len(rem)!=ta: bad.setdefault(('kad-value',),[]).append((os_,rem,ta))
                elif not okc: bad.setdefault(('kad-cert',),[]).append((os_,ax,rem))
            except Exception as e: bad.setdefault(('kad-exc',type(e).__name__+str(e)[:40]),[]).append((os_,))
print(n)
for k,v in bad.items(): print(k,len(v),min(v,key=lambda x:(sum(len(c) for c in x[0][0]),len(x[0]))))
