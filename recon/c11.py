from common import *
from preflibtools.properties.subdomains.ordinal.singlepeaked.singlepeakedness import *
random.seed(5)
if __name__=="__main__":
  pass

def weak_axis_ok(orders, axis):
    pos={a:i for i,a in enumerate(axis)}
    for o in orders:
        acc=[]
        for cls in o:
            acc+=list(cls)
            ps=sorted(pos[a] for a in acc)
            if ps[-1]-ps[0]!=len(ps)-1: return False
    return True
def brute_weak_sp(orders, alts):
    return any(weak_axis_ok(orders,ax) for ax in itertools.permutations(alts))
def rand_weak(alts):
    a=alts[:]; random.shuffle(a); res=[]; i=0
    while i<len(a):
        k=random.randint(1,len(a)-i) if random.random()<0.5 else 1
        res.append(tuple(a[i:i+k])); i+=k
    return tuple(res)
bad={}; n=0
for m in range(1,6):
    alts=list(range(1,m+1))
    for t in range(400):
        os_=list(dict.fromkeys(rand_weak(alts) for _ in range(random.randint(1,4))))
        inst=mk_ord([(o,random.randint(1,2)) for o in os_])
        if inst.data_type not in('soc','toc'): print('??',inst.data_type); continue
        n+=1
        truth=brute_weak_sp(os_,alts)
        # axis test on all axes
        for ax in itertools.permutations(alts):
            try: r=is_single_peaked_axis(inst,list(ax))
            except Exception as e: r='EXC'+type(e).__name__
            if r!=weak_axis_ok(os_,ax):
                bad.setdefault(('axis',r,weak_axis_ok(os_,ax)),[]).append((os_,ax)); break
        try: r=is_single_peaked_pq_tree(inst)
        except Exception as e: r='EXC:'+type(e).__name__+str(e)[:50]
        if r!=truth: bad.setdefault(('pq',r,truth),[]).append((os_,))
        if m<=4 and t<60:
            try:
                with quiet(): r,st,ax=is_single_peaked_ILP(inst)
            except Exception as e: r,st,ax='EXC:'+type(e).__name__+str(e)[:50],None,None
            if r!=truth: bad.setdefault(('ilp',r,truth),[]).append((os_,st))
            elif r is True and not (sorted(ax)==alts and weak_axis_ok(os_,ax)): bad.setdefault(('ilp-axis',),[]).append((os_,ax))
print(n)
for k,v in bad.items(): print(k,len(v),min(v,key=lambda x:(sum(len(c) for c in x[0][0]),len(x[0]))))
