from common import *
from c12b_lib import fast_sp, min_alt_del
from c03b_lib import gen_sp_orders
from preflibtools.properties.subdomains.ordinal.singlepeaked.k_alternative_deletion import k_alternative_deletion
import time
random.seed(32)
bad={}; n=0; t0=time.time()
while time.time()-t0<420:
    m=random.randint(4,8); alts=list(range(1,m+1))
    axis=alts[:]; random.shuffle(axis)
    flat=gen_sp_orders(axis, random.randint(2,8))
    for _ in range(random.randint(0,4)):
        o=list(random.choice(flat)); i=random.randrange(m); j=random.randrange(m); o[i],o[j]=o[j],o[i]; flat.append(tuple(o))
    if random.random()<0.2: flat=[tuple(random.sample(alts,m)) for _ in range(random.randint(2,5))]
    flat=list(dict.fromkeys(flat)); random.shuffle(flat)
    inst=mk_ord([(strict(o),1) for o in flat]); n+=1
    ta=min_alt_del(flat,alts)
    try:
        ax,rem=k_alternative_deletion(inst)
        keep=[a for a in alts if a not in rem]
        okc = sorted(ax)==sorted(keep) and (sp_axis_ok([tuple(a for a in o if a in keep) for o in flat], ax) if keep else True)
        if len(rem)!=ta: bad.setdefault(('kad-value',len(rem)-ta),[]).append((flat,ax,rem,ta))
        elif not okc: bad.setdefault(('kad-cert',),[]).append((flat,ax,rem))
    except Exception as e: bad.setdefault(('kad-exc',type(e).__name__+str(e)[:40]),[]).append((flat,))
print('kad',n)
for k,v in bad.items(): print(k,len(v),min(v,key=lambda x:len(str(x))))
