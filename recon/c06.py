from common import *
from fractions import Fraction
from preflibtools.aggregation.singlewinner import *
from preflibtools.properties.pairwisecomparisons import *
from preflibtools.properties.decorators import PreferenceIncompatibleError
from c11lib import rand_weak
random.seed(12)
bad={}
def rec(name,*info): bad.setdefault(name,[]).append(info)
def rand_order(alts, kind):
    m=len(alts)
    if kind=='soc': return strict(random.sample(alts,m))
    if kind=='soi': return strict(random.sample(alts,random.randint(1,m)))
    if kind=='toc': return rand_weak(alts)
    sub=random.sample(alts,random.randint(1,m)); return rand_weak(sub)
def above(o,a,b):
    pa=pb=None
    for i,c in enumerate(o):
        if a in c: pa=i
        if b in c: pb=i
    return pa is not None and pb is not None and pa<pb
n=0
for t in range(4000):
    m=random.randint(2,5); alts=list(range(1,m+1))
    kind=random.choice(['soc','soi','toc','toi'])
    os_=list(dict.fromkeys(rand_order(alts,kind) for _ in range(random.randint(1,5))))
    # ensure all alternatives appear
    inst=mk_ord([(o,random.randint(1,4)) for o in os_])
    for a in alts:
        if a not in inst.alternatives_name: inst.alternatives_name[a]='Alternative %d'%a
    inst.num_alternatives=len(inst.alternatives_name); inst.data_type=inst.infer_type()
    dt=inst.data_type; n+=1
    prof=inst.full_profile()
    # pairwise
    ps=pairwise_scores(inst); cs=copeland_scores(inst)
    for a in alts:
        for b in alts:
            if a==b: continue
            w=sum(1 for o in prof if above(o,a,b)); l=sum(1 for o in prof if above(o,b,a))
            if ps[a][b]!=w: rec(('pairwise',dt),os_)
            if cs[a][b]!=w-l: rec(('copeland_scores',dt),os_)
    marg={a:{b:sum(1 for o in prof if above(o,a,b))-sum(1 for o in prof if above(o,b,a)) for b in alts if b!=a} for a in alts}
    for weak in (False,True):
        truth=any(all((v>=0 if weak else v>0) for v in marg[a].values()) for a in alts)
        try: r=has_condorcet(inst,weak_condorcet=weak)
        except Exception as e: r='EXC'+type(e).__name__
        if r!=truth: rec(('condorcet',weak,dt,r,truth),os_, inst.vote_map())
    # winners
    def argmax(sc): 
        b=max(sc.values()); return {a for a in sc if sc[a]==b}
    plur={a:sum(1 for o in prof if a in o[0]) for a in alts}
    if plurality_winner(inst)!=argmax(plur): rec(('plurality',dt),os_)
    if dt in('soc','toc'):
        veto={a:sum(1 for o in prof if a in o[-1]) for a in alts}
        mn=min(veto.values())
        if veto_winner(inst)!={a for a in alts if veto[a]==mn}: rec(('veto',dt),os_)
        bs={a:sum(sum(len(c) for c in o[i+1:]) for o in prof for i,c in enumerate(o) if a in c) for a in alts}
        if borda_winner(inst)!=argmax(bs): rec(('borda',dt),os_)
    if dt in ('soc','soi'):
        for k in (1,2,3,7):
            ka={a:sum(1 for o in prof if (a,) in o[:k]) for a in alts}
            if k_approval_winner(inst,k)!=argmax(ka): rec(('kapp',dt),os_,k)
    if dt=='soc':
        wins={a:sum(1 for b in alts if b!=a and marg[a][b]>0) for a in alts}
        if copeland_winner(inst)!=argmax(wins): rec(('copeland_winner',),os_,inst.vote_map())
    # approval
    mx=max(len(o) for o in inst.orders)
    isapp = mx==1 or (mx==2 and dt in ('soc','toc'))
    try:
        r=approval_winner(inst)
        if not isapp: rec(('approval-notrefused',dt),os_)
        elif r!=argmax(plur): rec(('approval',dt),os_)
        sa={a:sum(Fraction(1,len(o[0])) for o in prof if a in o[0]) for a in alts}
        if satisfaction_approval_winner(inst)!=argmax(sa): rec(('sav',dt),os_)
    except PreferenceIncompatibleError:
        if isapp: rec(('approval-refused',dt),os_)
print(n)
for k,v in bad.items(): print(k,len(v),min(v,key=lambda x:(len(x[0]),)))
