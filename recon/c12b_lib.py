from common import *
def fast_sp(flat):
    alts=list(flat[0])
    if len(alts)<=2: return True
    def rec(rem, left, right):
        if not rem:
            return sp_axis_ok(flat, left+right[::-1])
        L=set()
        for o in flat:
            for a in reversed(o):
                if a in rem: L.add(a); break
        if len(L)>2: return False
        L=list(L)
        if len(L)==1:
            x=L[0]
            return rec(rem-{x}, left+[x], right) or rec(rem-{x}, left, right+[x])
        x,y=L
        return rec(rem-{x,y}, left+[x], right+[y]) or rec(rem-{x,y}, left+[y], right+[x])
    return rec(frozenset(alts), [], [])
def min_alt_del(flat, alts):
    for k in range(0,len(alts)+1):
        for D in itertools.combinations(alts,k):
            keep=set(alts)-set(D)
            r=[tuple(a for a in o if a in keep) for o in flat]
            if not keep or fast_sp(r): return k
