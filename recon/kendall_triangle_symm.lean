namespace Kendall

def before (o : List Nat) (x y : Nat) : Bool := decide (o.idxOf x < o.idxOf y)

/-- model of `kendall_tau_distance` (double loop, `order2.index` look-ups) -/
def kt : List Nat → List Nat → Nat
  | [], _ => 0
  | x :: rest, b => (rest.filter (fun y => decide (b.idxOf x > b.idxOf y))).length + kt rest b

def pairs (u : List Nat) : List (Nat × Nat) := u.flatMap (fun x => u.map (fun y => (x, y)))

/-- number of ordered pairs `(x,y)` of the universe that `a` ranks `x` before `y`
and `b` ranks `y` before `x` — every unordered disagreeing pair is counted once -/
def dis (a b u : List Nat) : Nat :=
  (pairs u).countP (fun p => before a p.1 p.2 && before b p.2 p.1)

theorem mem_pairs {u : List Nat} {p : Nat × Nat} : p ∈ pairs u ↔ p.1 ∈ u ∧ p.2 ∈ u := by
  simp only [pairs, List.mem_flatMap, List.mem_map]
  constructor
  · rintro ⟨x, hx, y, hy, rfl⟩; exact ⟨hx, hy⟩
  · rintro ⟨h1, h2⟩; exact ⟨p.1, h1, p.2, h2, rfl⟩

theorem countP_or_le (p q r : α → Bool) (l : List α) (h : ∀ x ∈ l, p x → q x ∨ r x) :
    l.countP p ≤ l.countP q + l.countP r := by
  induction l with
  | nil => simp
  | cons a l ih =>
    have ih' := ih (fun x hx => h x (by simp [hx]))
    have ha := h a (by simp)
    simp only [List.countP_cons]
    by_cases hp : p a
    · rcases ha hp with hq | hr
      · simp [hp, hq]; omega
      · simp [hp, hr]; omega
    · simp [hp]; omega

theorem idxOf_inj_of_mem {b : List Nat} {x y : Nat} (hx : x ∈ b) (h : b.idxOf x = b.idxOf y) : x = y := by
  induction b with
  | nil => simp at hx
  | cons c b ih =>
    rw [List.idxOf_cons, List.idxOf_cons] at h
    by_cases h1 : c = x
    · subst h1
      by_cases h2 : c = y
      · exact h2
      · have : (c == y) = false := by simpa using h2
        simp [this] at h
    · have e1 : (c == x) = false := by simpa using h1
      by_cases h2 : c = y
      · subst h2; simp [e1] at h
      · have e2 : (c == y) = false := by simpa using h2
        have hx' : x ∈ b := by
          rcases List.mem_cons.1 hx with rfl | h'
          · exact absurd rfl h1
          · exact h'
        simp [e1, e2] at h
        exact ih hx' h

/-- triangle inequality on a common universe -/
theorem dis_triangle (a b c u : List Nat) (hb : ∀ x ∈ u, x ∈ b) :
    dis a c u ≤ dis a b u + dis b c u := by
  unfold dis
  apply countP_or_le
  intro p hp hac
  have hm := mem_pairs.1 hp
  simp only [Bool.and_eq_true, before, decide_eq_true_eq] at hac ⊢
  obtain ⟨h1, h2⟩ := hac
  by_cases hb1 : b.idxOf p.2 < b.idxOf p.1
  · exact Or.inl ⟨h1, hb1⟩
  · right
    refine ⟨?_, h2⟩
    have hne : b.idxOf p.1 ≠ b.idxOf p.2 := by
      intro heq
      have := idxOf_inj_of_mem (hb _ hm.1) heq
      rw [this] at h1; omega
    omega

def c2 (f : Nat → Nat → Bool) (l1 l2 : List Nat) : Nat := (l1.map (fun x => l2.countP (f x))).sum

theorem c2_nil_right (f : Nat → Nat → Bool) (l1 : List Nat) : c2 f l1 [] = 0 := by
  induction l1 with
  | nil => rfl
  | cons x l1 ih => simp only [c2, List.map_cons, List.sum_cons, List.countP_nil, Nat.zero_add] at ih ⊢; exact ih

theorem c2_cons_right (f : Nat → Nat → Bool) (l1 l2 : List Nat) (y : Nat) :
    c2 f l1 (y :: l2) = l1.countP (fun x => f x y) + c2 f l1 l2 := by
  induction l1 with
  | nil => simp [c2]
  | cons x l1 ih =>
    simp only [c2, List.map_cons, List.sum_cons, List.countP_cons] at ih ⊢
    rw [ih]; omega

theorem c2_swap (f : Nat → Nat → Bool) (l1 l2 : List Nat) :
    c2 f l1 l2 = c2 (fun y x => f x y) l2 l1 := by
  induction l1 with
  | nil => rw [c2_nil_right]; rfl
  | cons x l1 ih =>
    rw [c2_cons_right, ← ih]
    simp [c2]

theorem dis_eq_c2 (a b u : List Nat) :
    dis a b u = c2 (fun x y => before a x y && before b y x) u u := by
  simp [dis, pairs, c2, List.countP_flatMap, List.countP_map, Function.comp_def]

theorem dis_symm (a b u : List Nat) : dis a b u = dis b a u := by
  rw [dis_eq_c2, dis_eq_c2, c2_swap]
  congr 1
  funext y x
  exact Bool.and_comm _ _

end Kendall
