import itertools, random, sys, io, contextlib
from preflibtools.instances import OrdinalInstance, CategoricalInstance, MatchingInstance

def mk_ord(orders_mult, alts=None):
    """orders_mult: list of (order(tuple of tuples), mult)"""
    inst = OrdinalInstance()
    vm = {}
    for o, m in orders_mult:
        vm[o] = vm.get(o, 0) + m
    inst.append_vote_map(vm)
    return inst

def strict(order):
    return tuple((a,) for a in order)

def sp_axis_ok(orders, axis):
    # orders: list of flat tuples; definition: for every k, top-k contiguous
    pos = {a: i for i, a in enumerate(axis)}
    if sorted(axis) != sorted(orders[0]) : return False
    for o in orders:
        for k in range(1, len(o) + 1):
            ps = sorted(pos[a] for a in o[:k])
            if ps[-1] - ps[0] != k - 1:
                return False
    return True

def brute_sp(orders):
    alts = list(orders[0])
    for axis in itertools.permutations(alts):
        if sp_axis_ok(orders, axis):
            return True
    return False

@contextlib.contextmanager
def quiet():
    with contextlib.redirect_stdout(io.StringIO()):
        yield
