from common import *
import os
from preflibtools.properties.subdomains.ordinal.euclidean import is_one_euclidean
from mip import Model, CONTINUOUS, OptimizationStatus
random.seed(9)
def realises(flat, y, n):
    # y: dict index-> position; voters 0..n-1, alt a at a+n-1
    try:
        for i,o in enumerate(flat):
            d=[abs(y[i]-y[a+n-1]) for a in o]
            if any(d[k]>=d[k+1] for k in range(len(d)-1)): return False
        return True
    except KeyError: return 'missing'
def lp_feasible(flat, axis):
    m=len(axis); n=len(flat)
    mdl=Model(); mdl.verbose=0
    v=[mdl.add_var(var_type=CONTINUOUS, lb=-1e6, ub=1e6) for _ in range(n)]
    x={a:mdl.add_var(var_type=CONTINUOUS, lb=-1e6, ub=1e6) for a in axis}
    for i in range(m-1): mdl += x[axis[i]]+1 <= x[axis[i+1]]
    for i,o in enumerate(flat):
        for a,b in itertools.combinations(axis,2):  # a left of b
            if o.index(a)<o.index(b): mdl += v[i]+1 <= (x[a]+x[b])/2
            else: mdl += v[i] >= (x[a]+x[b])/2+1
    mdl.objective=0
    st=mdl.optimize()
    return st in (OptimizationStatus.OPTIMAL, OptimizationStatus.FEASIBLE)
def brute_euclid(flat):
    alts=list(flat[0])
    for ax in itertools.permutations(alts):
        if ax[0]>ax[-1]: continue
        if sp_axis_ok(flat,ax) and lp_feasible(flat,ax): return True
    return False
def gen_euclid(m,k):
    xs=[random.uniform(0,10) for _ in range(m)]
    res=[]
    for _ in range(k):
        v=random.uniform(-1,11)
        res.append(tuple(sorted(range(1,m+1), key=lambda a: abs(xs[a-1]-v))))
    return list(dict.fromkeys(res))

if __name__=="__main__":
  exec(compile("bad={}; n=0; npos=0\nfor m in range(3,7):\n    alts=list(range(1,m+1)); perms=list(itertools.permutations(alts))\n    for t in range(250):\n        if random.random()<0.6: flat=gen_euclid(m,random.randint(2,7))\n        else: flat=random.sample(perms, random.randint(1,min(4,len(perms))))\n        random.shuffle(flat)\n        inst=mk_ord([(strict(o),1) for o in flat]); n+=1\n        truth=brute_euclid(flat); npos+=truth\n        try: res,y=is_one_euclidean(inst)\n        except Exception as e: res,y='EXC:'+type(e).__name__+str(e)[:40],None\n        if res is True:\n            r=realises(flat,y,len(flat))\n            if not truth or r is not True: bad.setdefault(('true-bad',truth,r),[]).append((flat,y))\n        elif res is False:\n            if truth: bad.setdefault(('false-neg',),[]).append((flat,))\n        else: bad.setdefault((res,truth),[]).append((flat,))\nprint(n,npos)\nfor k,v in bad.items(): print(k,len(v),min(v,key=lambda x:(len(x[0][0]),len(x[0]))))\n","x","exec"))
