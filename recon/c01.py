from common import *
import tempfile, os
from preflibtools.instances import get_parsed_instance
from c11lib import rand_weak
random.seed(14)
d=tempfile.mkdtemp()
bad={}
def rec(name,*info): bad.setdefault(name,[]).append(info)
def snapshot(i):
    return dict(dt=i.data_type, mt=i.modification_type, rt=i.relates_to, rf=i.related_files, title=i.title, desc=i.description, pd=i.publication_date, md=i.modification_date, na=i.num_alternatives, nv=i.num_voters, nu=i.num_unique_orders, names=list(i.alternatives_name.items()), orders=sorted(i.orders), mult=dict(i.multiplicity), fn=i.file_name)
for t in range(1500):
    m=random.randint(1,5); alts=random.sample(range(1,30),m)
    kind=random.choice(['soc','soi','toc','toi'])
    os_=[]
    for _ in range(random.randint(1,6)):
        if kind=='soc': o=strict(random.sample(alts,m))
        elif kind=='soi': o=strict(random.sample(alts,random.randint(1,m)))
        elif kind=='toc': o=rand_weak(alts)
        else: o=rand_weak(random.sample(alts,random.randint(1,m)))
        os_.append(o)
    os_=list(dict.fromkeys(os_))
    inst=OrdinalInstance()
    inst.append_vote_map({o:random.randint(1,3) for o in os_})
    for a in alts:
        if a not in inst.alternatives_name: inst.alternatives_name[a]='x'
    for a in inst.alternatives_name: inst.alternatives_name[a]=random.choice(['Alt %d'%a,'a: b','# x','{1, 2}','é ü','x__1','1: 2, 3'])
    inst.num_alternatives=len(inst.alternatives_name); inst.data_type=inst.infer_type()
    inst.title=random.choice(['','T','# TITLE: x','a  b'])
    inst.description=random.choice(['','some: thing, {x}'])
    inst.modification_type=random.choice(['original','synthetic',''])
    inst.file_name='f%d.%s'%(t,inst.data_type)
    p=os.path.join(d,inst.file_name)
    inst.write(p)
    b1=open(p,encoding='utf-8').read()
    try: i2=get_parsed_instance(p)
    except Exception as e: rec(('parse-exc',type(e).__name__+str(e)[:40]),b1); continue
    s1=snapshot(inst); s2=snapshot(i2)
    if s1!=s2: rec(('diff',tuple(k for k in s1 if s1[k]!=s2[k])),b1,s1,s2)
    p2=os.path.join(d,'again_'+inst.file_name); 
    i2.write(p2); b2=open(p2,encoding='utf-8').read()
    if b1!=b2: rec(('bytes',),b1,b2)
    # sorted by non-increasing mult
    mults=[int(l.split(':')[0]) for l in b1.splitlines() if not l.startswith('#')]
    if mults!=sorted(mults,reverse=True): rec(('order',),b1)
for k,v in bad.items(): print(k,len(v),min(v,key=lambda x:len(x[0])))
