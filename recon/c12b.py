from common import *
from preflibtools.properties.subdomains.ordinal.singlepeaked.k_alternative_deletion import k_alternative_deletion
from preflibtools.properties.subdomains.ordinal.singlepeaked.k_alternative_partition import k_alt_partition_approx
from c03b_lib import gen_sp_orders
random.seed(8)
def fast_sp(flat):
    alts=list(flat[0])
    if len(alts)<=2: return True
    def rec(rem, left, right):
        if not rem:
            return sp_axis_ok(flat, left+right[::-1])
        L=set()
        for o in flat:
            for a in reversed(o):
                if a in rem: L.add(a); break
        if len(L)>2: return False
        L=list(L)
        if len(L)==1:
            x=L[0]
            return rec(rem-{x}, left+[x], right) or rec(rem-{x}, left, right+[x])
        x,y=L
        return rec(rem-{x,y}, left+[x], right+[y]) or rec(rem-{x,y}, left+[y], right+[x])
    return rec(frozenset(alts), [], [])
def min_alt_del(flat, alts):
    for k in range(0,len(alts)+1):
        for D in itertools.combinations(alts,k):
            keep=set(alts)-set(D)
            r=[tuple(a for a in o if a in keep) for o in flat]
            if not keep or fast_sp(r): return k
bad={}; n=0
for m in range(6,10):
    alts=list(range(1,m+1))
    for t in range(120 if m<9 else 40):
        axis=alts[:]; random.shuffle(axis)
        flat=gen_sp_orders(axis, random.randint(2,6))
        # perturb: add noise orders / swaps
        for _ in range(random.randint(0,3)):
            o=list(random.choice(flat)); i=random.randrange(m); j=random.randrange(m); o[i],o[j]=o[j],o[i]
            flat.append(tuple(o))
        flat=list(dict.fromkeys(flat)); random.shuffle(flat)
        inst=mk_ord([(strict(o),1) for o in flat]); n+=1
        ta=min_alt_del(flat,alts)
        try:
            ax,rem=k_alternative_deletion(inst)
            keep=[a for a in alts if a not in rem]
            okc = sorted(ax)==sorted(keep) and (sp_axis_ok([tuple(a for a in o if a in keep) for o in flat], ax) if keep else True)
            if len(rem)!=ta: bad.setdefault(('kad-value',len(rem)-ta),[]).append((flat,ax,rem,ta))
            elif not okc: bad.setdefault(('kad-cert',),[]).append((flat,ax,rem))
        except Exception as e: bad.setdefault(('kad-exc',type(e).__name__+str(e)[:40]),[]).append((flat,))
        try:
            axes=k_alt_partition_approx(inst)
            allx=[a for ax in axes for a in ax]
            ok=sorted(allx)==alts and all(sp_axis_ok([tuple(a for a in o if a in ax) for o in flat], ax) for ax in axes)
            if not ok: bad.setdefault(('approx-invalid',),[]).append((flat,axes))
        except Exception as e: bad.setdefault(('approx-exc',type(e).__name__+str(e)[:40]),[]).append((flat,))
print(n)
for k,v in bad.items(): print(k,len(v),min(v,key=lambda x:(len(x[0][0]),len(x[0]))))
