from common import *
from preflibtools.properties.subdomains.ordinal.singlecrossing import is_single_crossing, is_single_crossing_conflict_sets
random.seed(3)
def sc_seq_ok(seq):
    # every pair switches at most once along seq
    if not seq: return True
    alts = list(seq[0])
    for a,b in itertools.combinations(alts,2):
        pat=[o.index(a)<o.index(b) for o in seq]
        changes=sum(1 for i in range(len(pat)-1) if pat[i]!=pat[i+1])
        if changes>1: return False
    return True
def brute_sc(os_):
    for p in itertools.permutations(os_):
        if sc_seq_ok(p): return True
    return False
def gen_sc(m, k):
    cur=list(range(1,m+1)); random.shuffle(cur)
    target=cur[:]; random.shuffle(target)
    # walk from cur toward target by adjacent swaps of inverted pairs (each pair swapped at most once)
    seq=[tuple(cur)]
    tpos={a:i for i,a in enumerate(target)}
    while True:
        inv=[i for i in range(m-1) if tpos[cur[i]]>tpos[cur[i+1]]]
        if not inv: break
        i=random.choice(inv); cur[i],cur[i+1]=cur[i+1],cur[i]
        if random.random()<0.6: seq.append(tuple(cur))
    seq=list(dict.fromkeys(seq))
    if len(seq)>k: 
        idx=sorted(random.sample(range(len(seq)),k)); seq=[seq[i] for i in idx]
    return seq
bad={}; n=0; npos=0
for m in range(2,6):
    alts=list(range(1,m+1)); perms=list(itertools.permutations(alts))
    for t in range(2500):
        if random.random()<0.5:
            os_=gen_sc(m, random.randint(1,7))
            if random.random()<0.3:
                o=random.choice(perms)
                if o not in os_: os_.append(o)
        else:
            os_=random.sample(perms, random.randint(1,min(len(perms),6)))
        os_=os_[:7]
        random.shuffle(os_)
        inst=mk_ord([(strict(o),random.randint(1,3)) for o in os_])
        truth=brute_sc(os_); n+=1; npos+=truth
        try:
            res,seq=is_single_crossing(inst)
        except Exception as e:
            res,seq='EXC:'+type(e).__name__,None
        try: res2=is_single_crossing_conflict_sets(inst)
        except Exception as e: res2='EXC:'+type(e).__name__
        branch = 'n<m' if len(os_)<m else 'n>=m'
        if res is True:
            okperm = sorted(seq)==sorted(os_)
            if not (truth and okperm and sc_seq_ok(seq)):
                bad.setdefault(('true-bad',branch,truth,okperm,sc_seq_ok(seq)),[]).append((os_,seq))
        elif res is False:
            if truth: bad.setdefault(('false-neg',branch),[]).append((os_,))
        else: bad.setdefault((res,),[]).append((os_,))
        if res2!=truth: bad.setdefault(('cs',res2,truth),[]).append((os_,))
print(n,npos)
for k,v in bad.items(): print(k,len(v),min(v,key=lambda x:(len(x[0][0]),len(x[0]))))
