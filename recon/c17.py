from common import *
from collections import Counter
from preflibtools.properties.distances import *
from c11lib import rand_weak
random.seed(17)
bad={}
def rec(name,*info): bad.setdefault(name,[]).append(info)
for t in range(3000):
    m=random.randint(1,5); alts=random.sample(range(1,9),m)
    os_=list(dict.fromkeys(rand_weak(random.sample(alts,random.randint(1,m))) for _ in range(random.randint(1,5))))
    inst=mk_ord([(o,random.randint(1,3)) for o in os_])
    mode=random.choice(['size','rel','num'])
    tr=[random.randint(1,3) for _ in range(random.randint(1,3))]
    try:
        if mode=='size': c=CategoricalInstance.from_ordinal(inst,size_truncators=tr)
        elif mode=='rel': c=CategoricalInstance.from_ordinal(inst,relative_size_truncators=[x/10 for x in tr])
        else: c=CategoricalInstance.from_ordinal(inst,num_indif_classes=tr)
    except Exception as e: rec((mode,'exc',type(e).__name__+str(e)[:30]),os_,tr); continue
    if len(set(c.preferences))!=len(c.preferences): rec((mode,'dup'),os_,tr)
    if sum(c.multiplicity.values())!=inst.num_voters or c.num_voters!=inst.num_voters: rec((mode,'voters'),os_,tr)
    if any(len(p)!=c.num_categories for p in c.preferences): rec((mode,'pad'),os_,tr)
    # per-order shape: recompute expected for size truncators
    if mode=='size':
        for o in os_:
            exp=[];idx=0
            for tp in tr:
                al=[]
                while len(al)<tp and idx<len(o): al+=list(o[idx]); idx+=1
                exp.append(tuple(al))
                if idx>=len(o): break
            if idx<len(o): exp.append(tuple(a for cl in o[idx:] for a in cl))
            while len(exp)<c.num_categories: exp.append(())
            if tuple(exp) not in c.multiplicity: rec((mode,'shape'),os_,tr)
for k,v in bad.items(): print(k,len(v),min(v,key=lambda x:len(x[0])))
# distances
for t in range(2000):
    m=random.randint(2,6); alts=list(range(m))
    a,b,c=[strict(random.sample(alts,m)) for _ in range(3)]
    inv=lambda x,y: sum(1 for i,j in itertools.combinations(alts,2) if (x.index((i,))<x.index((j,)))!=(y.index((i,))<y.index((j,))))
    assert kendall_tau_distance(a,b)==inv(a,b)
    assert kendall_tau_distance(a,c)<=kendall_tau_distance(a,b)+kendall_tau_distance(b,c)
    for f in (spearman_footrule_distance,sertel_distance):
        assert f(a,b)==f(b,a), (f,a,b); assert 0<=f(a,b)<=1; assert (f(a,b)==0)==(a==b)
print('dist ok')
