from common import *
from preflibtools.properties.subdomains.ordinal.singlepeaked.k_alternative_deletion import k_alternative_deletion
from preflibtools.properties.subdomains.ordinal.singlepeaked.k_alternative_partition import k_alt_partition_approx, k_alternative_partition_brut_force
random.seed(7)
from functools import lru_cache
def sp_sub(flat, keep):
    keep=list(keep)
    r=[tuple(a for a in o if a in keep) for o in flat]
    return brute_sp(r) if keep else True
def min_alt_del(flat, alts):
    for k in range(0,len(alts)+1):
        for D in itertools.combinations(alts,k):
            keep=[a for a in alts if a not in D]
            if sp_sub(flat,keep): return k
def set_partitions(s):
    s=list(s)
    if not s: yield []; return
    first=s[0]
    for p in set_partitions(s[1:]):
        for i in range(len(p)):
            yield p[:i]+[[first]+p[i]]+p[i+1:]
        yield [[first]]+p
def min_partition(flat, alts):
    best=None
    spc={}
    for p in set_partitions(alts):
        if best is not None and len(p)>=best: continue
        ok=True
        for blk in p:
            key=tuple(sorted(blk))
            if key not in spc: spc[key]=sp_sub(flat,blk)
            if not spc[key]: ok=False;break
        if ok: best=len(p)
    return best
def valid_partition(flat, alts, axes):
    allx=[a for ax in axes for a in ax]
    if sorted(allx)!=sorted(alts): return False
    for ax in axes:
        r=[tuple(a for a in o if a in ax) for o in flat]
        if not sp_axis_ok(r, ax): return False
    return True
bad={}; n=0
for m in range(1,7):
    alts=list(range(1,m+1))
    for t in range(150 if m<6 else 60):
        flat=list(dict.fromkeys(tuple(random.sample(alts,m)) for _ in range(random.randint(1,5))))
        inst=mk_ord([(strict(o),random.randint(1,2)) for o in flat]); n+=1
        ta=min_alt_del(flat,alts); tp=min_partition(flat,alts)
        try:
            ax,rem=k_alternative_deletion(inst)
            keep=[a for a in alts if a not in rem]
            okc = sorted(ax)==sorted(keep) and (sp_axis_ok([tuple(a for a in o if a in keep) for o in flat], ax) if keep else True)
            if len(rem)!=ta: bad.setdefault(('kad-value',len(rem)-ta),[]).append((flat,ax,rem,ta))
            elif not okc: bad.setdefault(('kad-cert',),[]).append((flat,ax,rem))
        except Exception as e: bad.setdefault(('kad-exc',type(e).__name__+str(e)[:40]),[]).append((flat,))
        try:
            axes=k_alt_partition_approx(inst)
            if not valid_partition(flat,alts,axes): bad.setdefault(('approx-invalid',),[]).append((flat,axes))
        except Exception as e: bad.setdefault(('approx-exc',type(e).__name__+str(e)[:40]),[]).append((flat,))
        for k in (1,2,3,m):
            try:
                axes=k_alternative_partition_brut_force(inst,k)
                if tp<=k:
                    if axes is None: bad.setdefault(('bf-none',m%2,tp,k),[]).append((flat,tp,k))
                    elif len(axes)!=tp or not valid_partition(flat,alts,axes): bad.setdefault(('bf-bad',len(axes)-tp, valid_partition(flat,alts,axes)),[]).append((flat,axes,tp,k))
                else:
                    if axes is not None: bad.setdefault(('bf-notnone',),[]).append((flat,axes,tp,k))
            except Exception as e: bad.setdefault(('bf-exc',type(e).__name__+str(e)[:40]),[]).append((flat,k))
print(n)
for k,v in bad.items(): print(k,len(v),min(v,key=lambda x:(len(x[0][0]),len(x[0]))))
