from common import *
from c12b_lib import fast_sp
from c03b_lib import gen_sp_orders
from preflibtools.properties.subdomains.ordinal.singlepeaked.singlepeakedness import is_single_peaked
from preflibtools.properties.subdomains.ordinal.singlepeaked.k_alternative_deletion import k_alternative_deletion
import time
random.seed(31)
bad={}; n=0; pos=0; t0=time.time()
while time.time()-t0<420:
    m=random.randint(4,9); alts=list(range(1,m+1))
    axis=alts[:]; random.shuffle(axis)
    flat=gen_sp_orders(axis, random.randint(2,10))
    r=random.random()
    if r<0.6:
        for _ in range(random.randint(1,2)):
            o=list(random.choice(flat)); i=random.randrange(m-1); o[i],o[i+1]=o[i+1],o[i]; flat.append(tuple(o))
    elif r<0.7:
        flat.append(tuple(random.sample(alts,m)))
    flat=list(dict.fromkeys(flat)); random.shuffle(flat)
    inst=mk_ord([(strict(o),1) for o in flat]); n+=1
    truth=fast_sp(flat); pos+=truth
    try: res,ax=is_single_peaked(inst)
    except Exception as e: res,ax='EXC'+type(e).__name__,None
    if res!=truth: bad.setdefault(('sp-verdict',res,truth),[]).append(flat)
    elif res and not sp_axis_ok(flat,[a for i,a in enumerate(ax) if a not in ax[:i]]): bad.setdefault(('sp-axis-dedup-invalid',),[]).append((flat,ax))
print('sp',n,pos)
for k,v in bad.items(): print(k,len(v),min(v,key=lambda x:len(str(x))))
