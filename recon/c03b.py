from common import *
from preflibtools.properties.subdomains.ordinal.singlepeaked.singlepeakedness import is_single_peaked, is_single_peaked_axis
random.seed(2)
bad = {}
n=0; npos=0
def gen_sp_orders(axis, k):
    # generate random SP order on axis
    res=[]
    for _ in range(k):
        m=len(axis); p=random.randrange(m); l=p-1; r=p+1; o=[axis[p]]
        while len(o)<m:
            if l<0: o.append(axis[r]); r+=1
            elif r>=m: o.append(axis[l]); l-=1
            elif random.random()<0.5: o.append(axis[l]); l-=1
            else: o.append(axis[r]); r+=1
        res.append(tuple(o))
    return list(dict.fromkeys(res))
for m in range(5, 8):
    alts = list(range(1, m+1))
    for trial in range(3000):
        mode = random.random()
        if mode<0.5:
            axis = alts[:]; random.shuffle(axis)
            os_ = gen_sp_orders(axis, random.randint(1,6))
            if mode<0.25:
                # perturb one
                o=list(random.choice(os_)); i=random.randrange(m-1); o[i],o[i+1]=o[i+1],o[i]
                if tuple(o) not in os_: os_.append(tuple(o))
            random.shuffle(os_)
        else:
            os_ = list(dict.fromkeys(tuple(random.sample(alts,m)) for _ in range(random.randint(1,4))))
        inst = mk_ord([(strict(o), random.randint(1,3)) for o in os_])
        try:
            res, axis = is_single_peaked(inst)
        except Exception as e:
            res, axis = 'EXC:'+type(e).__name__+str(e)[:40], None
        truth = brute_sp(os_)
        n+=1; npos+=truth
        if res is True:
            ok = truth and sp_axis_ok(os_, axis)
            if not ok:
                key = ('true-bad', truth, sorted(axis)==alts, len(axis)-m)
                bad.setdefault(key, []).append((os_, axis))
        elif res is False:
            if truth:
                bad.setdefault(('false-neg',), []).append((os_, axis))
        else:
            bad.setdefault((res,), []).append((os_, truth))
print(n, npos)
for k, v in bad.items():
    print(k, len(v), min(v, key=lambda x: (len(x[0][0]), len(x[0]))))
