import random
def gen_sp_orders(axis, k):
    # generate random SP order on axis
    res=[]
    for _ in range(k):
        m=len(axis); p=random.randrange(m); l=p-1; r=p+1; o=[axis[p]]
        while len(o)<m:
            if l<0: o.append(axis[r]); r+=1
            elif r>=m: o.append(axis[l]); l-=1
            elif random.random()<0.5: o.append(axis[l]); l-=1
            else: o.append(axis[r]); r+=1
        res.append(tuple(o))
    return list(dict.fromkeys(res))
