from common import *
from preflibtools.properties.subdomains.ordinal.singlepeaked.singlepeakedness import *
random.seed(5)
if __name__=="__main__":
  pass

def weak_axis_ok(orders, axis):
    pos={a:i for i,a in enumerate(axis)}
    for o in orders:
        acc=[]
        for cls in o:
            acc+=list(cls)
            ps=sorted(pos[a] for a in acc)
            if ps[-1]-ps[0]!=len(ps)-1: return False
    return True
def brute_weak_sp(orders, alts):
    return any(weak_axis_ok(orders,ax) for ax in itertools.permutations(alts))
def rand_weak(alts):
    a=alts[:]; random.shuffle(a); res=[]; i=0
    while i<len(a):
        k=random.randint(1,len(a)-i) if random.random()<0.5 else 1
        res.append(tuple(a[i:i+k])); i+=k
    return tuple(res)
