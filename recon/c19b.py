from common import *
import os, collections
import preflibtools.properties.subdomains.ordinal.euclidean as E
from c19 import brute_euclid, gen_euclid, realises
random.seed(21)
cap={}
orig=E._one_euclidean_gen_sets
def wrap(v1,cp,cm):
    cap['plus']=set(cp); cap['minus']=set(cm); return orig(v1,cp,cm)
E._one_euclidean_gen_sets=wrap
stats=collections.Counter(); ex={}
for m in range(2,7):
    alts=list(range(1,m+1)); perms=list(itertools.permutations(alts))
    for t in range(200):
        if random.random()<0.7: flat=gen_euclid(m,random.randint(1,6))
        else: flat=random.sample(perms, random.randint(1,min(4,len(perms))))
        random.shuffle(flat)
        inst=mk_ord([(strict(o),1) for o in flat])
        truth=brute_euclid(flat); cap.clear()
        try: res,y=E.is_one_euclidean(inst); exc=None
        except Exception as e: res,y,exc=None,None,type(e).__name__+':'+str(e)[:30]
        grey = len(cap.get('minus',()))>0 if cap else None
        n=len(flat)
        if exc: key=('EXC',exc,'n=1' if n==1 else 'n>1','grey' if grey else 'nogrey')
        elif res is True:
            r=realises(flat,y,n)
            key=('True',truth,'valid' if r is True else ('missing' if r=='missing' else 'invalid'),'grey' if grey else 'nogrey', 'n<m' if n<m else 'n>=m')
        else: key=('False',truth,'n<m' if n<m else 'n>=m')
        stats[key]+=1; ex.setdefault(key,flat)
for k,v in sorted(stats.items(),key=str): print(k,v,ex[k] if len(str(ex[k]))<120 else '')
