from common import *
import tempfile, os
from preflibtools.instances import get_parsed_instance
random.seed(15)
d=tempfile.mkdtemp()
bad={}
def rec(name,*info): bad.setdefault(name,[]).append(info)
def snap(i): return dict(dt=i.data_type,na=i.num_alternatives,nv=i.num_voters,nu=i.num_unique_preferences,nc=i.num_categories,cn=list(i.categories_name.items()),names=list(i.alternatives_name.items()),prefs=sorted(i.preferences),mult=dict(i.multiplicity),title=i.title)
for t in range(1500):
    m=random.randint(1,5); alts=random.sample(range(1,30),m); nc=random.randint(1,4)
    inst=CategoricalInstance(); inst.num_categories=nc; inst.categories_name={k+1:random.choice(['Yes','No: x','c__1']) for k in range(nc)}
    inst.alternatives_name={a:'A%d'%a for a in alts}; inst.num_alternatives=m
    for _ in range(random.randint(1,6)):
        rem=alts[:]; random.shuffle(rem); pref=[]
        for c in range(nc):
            k=random.choice([0,0,1,2,len(rem)]); k=min(k,len(rem))
            pref.append(tuple(rem[:k])); rem=rem[k:]
        pref=tuple(pref)
        if pref in inst.multiplicity: inst.multiplicity[pref]+=1
        else: inst.preferences.append(pref); inst.multiplicity[pref]=random.randint(1,3)
    inst.recompute_cardinality_param(); inst.file_name='f%d.cat'%t; inst.title='x'
    p=os.path.join(d,inst.file_name); inst.write(p); b1=open(p).read()
    try: i2=get_parsed_instance(p)
    except Exception as e: rec(('parse-exc',type(e).__name__+str(e)[:40]),b1); continue
    if snap(inst)!=snap(i2): rec(('diff',tuple(k for k in snap(inst) if snap(inst)[k]!=snap(i2)[k])),b1,snap(inst),snap(i2))
    p2=os.path.join(d,'again.cat'); i2.write(p2)
    if open(p2).read()!=b1: rec(('bytes',),b1,open(p2).read())
for k,v in bad.items(): print(k,len(v),min(v,key=lambda x:len(x[0])))
# matching
for t in range(1000):
    g=MatchingInstance(); g.data_type='wmd'
    nodes=random.sample(range(0,20),random.randint(1,5))
    for _ in range(random.randint(1,8)):
        w=random.choice([random.uniform(-1e3,1e3),1e-310,1e300,0.1,-0.0,float(random.randint(-5,5)),2**53+1.0,1/3])
        g.add_edge(random.choice(nodes),random.choice(nodes),w)
    g.alternatives_name={n:'n%d'%n for n in g.nodes()}; g.num_alternatives=len(g.alternatives_name)
    g.num_edges=len(g.edges()); g.file_name='g.wmd'
    p=os.path.join(d,'g.wmd'); g.write(p); b1=open(p).read()
    try: g2=get_parsed_instance(p)
    except Exception as e: rec(('wmd-exc',type(e).__name__+str(e)[:40]),b1); continue
    import struct
    bits=lambda es: sorted((a,b,struct.pack('>d',w)) for a,b,w in es)
    if bits(g.edges())!=bits(g2.edges()): rec(('wmd-edges',),b1)
    if set(g.nodes())!=set(g2.nodes()) or g2.num_edges!=len(g2.edges()) or g2.num_voters!=g2.num_alternatives: rec(('wmd-meta',),b1)
    p2=os.path.join(d,'g2.wmd'); g2.write(p2)
    if open(p2).read()!=b1: rec(('wmd-bytes',),b1,open(p2).read())
for k,v in bad.items(): print(k,len(v),min(v,key=lambda x:len(x[0])))
