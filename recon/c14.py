from common import *
from preflibtools.aggregation.singlewinner import *
import signal
random.seed(13)
# SAV float check
inst=mk_ord([ (((1,2,3,4,5,6,7,8,9,10),(11,12)),1), (((1,13,3,4,5,6,7,8,9,10),(11,12,2)),2), (((2,23,33,43,53,63,73,83,93,103),),3)])
print(inst.data_type)
inst2=OrdinalInstance(); 
# approval: m==1 needed for toi; build single-class ballots
vm={ (tuple(range(1,11)),):1, ((1,)+tuple(range(12,21)),):2, (tuple(range(21,31)),):3 }
inst2.append_vote_map(vm); print(inst2.data_type, satisfaction_approval_winner(inst2))
# expected exact: alt1: 1/10+2/10=3/10 ; alts 21..30: 3/10 -> tie all
def ref(flat_mult, m, fallback):
    n=sum(mu for _,mu in flat_mult); quota=n//2+1
    alts=set(a for o,_ in flat_mult for a in o)
    for k in range(1, m+1):
        sc={}
        for o,mu in flat_mult:
            for a in o[:k]: sc[a]=sc.get(a,0)+mu
        if max(sc.values())>=quota:
            b=max(sc.values()); return {a for a in sc if sc[a]==b}
    b=max(sc.values()); return {a for a in sc if sc[a]==b}
class TO(Exception): pass
def handler(s,f): raise TO()
signal.signal(signal.SIGALRM, handler)
bad={}
def rec(name,*info): bad.setdefault(name,[]).append(info)
for t in range(1500):
    if t%200==0: print("t",t,flush=True)
    m=random.randint(1,5); alts=list(range(1,m+1))
    kind=random.choice(['soc','soi'])
    fl=[]
    for _ in range(random.randint(1,5)):
        k=m if kind=='soc' else random.randint(1,m)
        fl.append(tuple(random.sample(alts,k)))
    fl=list(dict.fromkeys(fl))
    fm=[(o,random.randint(1,4)) for o in fl]
    inst=mk_ord([(strict(o),mu) for o,mu in fm])
    for a in alts:
        if a not in inst.alternatives_name: inst.alternatives_name[a]='x'
    inst.num_alternatives=len(inst.alternatives_name); inst.data_type=inst.infer_type()
    truth=ref(fm,m,True)
    for nm,f in (('fallback',fallback_voting_winner),('bucklin',bucklin_voting_winner)):
        if nm=='bucklin' and inst.data_type!='soc': continue
        if inst.data_type not in ('soc','soi'): continue
        signal.setitimer(signal.ITIMER_REAL,0.05)
        try:
            r=f(inst); signal.setitimer(signal.ITIMER_REAL,0)
            if r!=truth: rec((nm,'wrong'),fm,r,truth)
        except TO: rec((nm,'timeout'),fm)
        except Exception as e: signal.setitimer(signal.ITIMER_REAL,0); rec((nm,'EXC'+type(e).__name__),fm)
for k,v in bad.items(): print(k,len(v),min(v,key=lambda x:(len(x[0][0][0]),len(x[0]))))
