namespace Proto

theorem getD_eq {l : List Nat} {i : Nat} (h : i < l.length) : l.getD i 0 = l[i] := by
  simp [List.getD_eq_getElem?_getD, h]

def valleyAux : Bool → Option Nat → List Nat → Bool
  | _, _, [] => true
  | passed, none, p :: ps => valleyAux passed (some p) ps
  | passed, some q, p :: ps =>
    if passed then
      if p < q then false else valleyAux true (some p) ps
    else
      if p > q then valleyAux true (some p) ps else valleyAux false (some p) ps

def valley (ps : List Nat) : Bool := valleyAux false none ps

/-- every strict lower level set `{i | ps[i] < k}` is an interval of indices -/
def Contig (ps : List Nat) : Prop :=
  ∀ (k i j l : Nat), i < j → j < l → (hl : l < ps.length) →
    ps.getD i 0 < k → ps.getD l 0 < k → ps.getD j 0 < k

def Incr (ps : List Nat) : Prop := ps.Pairwise (· ≤ ·)

theorem valleyAux_true (q : Nat) (ps : List Nat) :
    valleyAux true (some q) ps = true ↔ Incr (q :: ps) := by
  induction ps generalizing q with
  | nil => simp [valleyAux, Incr]
  | cons p ps ih =>
    unfold valleyAux
    simp only [if_true]
    by_cases h : p < q
    · simp [h, Incr]; intro hh; omega
    · simp only [h, if_false, ih, Incr, List.pairwise_cons] 
      constructor
      · rintro ⟨h1, h2⟩
        refine ⟨?_, h1, h2⟩
        intro a ha
        rcases List.mem_cons.1 ha with rfl | ha
        · omega
        · have := h1 a ha; omega
      · rintro ⟨_, h1, h2⟩; exact ⟨h1, h2⟩



theorem contig_tail {q : Nat} {ps : List Nat} (h : Contig (q :: ps)) : Contig ps := by
  intro k i j l hij hjl hl hi hlk
  have := h k (i+1) (j+1) (l+1) (by omega) (by omega) (by simp; omega)
  simpa using this (by simpa using hi) (by simpa using hlk)

theorem incr_contig {ps : List Nat} (h : Incr ps) : Contig ps := by
  intro k i j l hij hjl hl hi hlk
  have hj : j < ps.length := by omega
  have hi' : i < ps.length := by omega
  have : ps[j] ≤ ps[l] := List.pairwise_iff_getElem.1 h j l hj hl hjl
  rw [getD_eq hl] at hlk
  rw [getD_eq hj]
  omega

theorem contig_step_le {q p : Nat} {ps : List Nat} (hpq : p ≤ q) :
    Contig (q :: p :: ps) ↔ Contig (p :: ps) := by
  constructor
  · exact contig_tail
  · intro h k i j l hij hjl hl hi hlk
    match i, j, l with
    | 0, 1, l+2 =>
      simp at hi hlk ⊢; omega
    | 0, j+2, l+3 =>
      have := h k 0 (j+1) (l+2) (by omega) (by omega) (by simp at hl ⊢; omega)
      simp at hi hlk this ⊢
      exact this (by omega) hlk
    | i+1, j+2, l+3 =>
      have := h k i (j+1) (l+2) (by omega) (by omega) (by simp at hl ⊢; omega)
      simp at hi hlk this ⊢
      exact this hi hlk

theorem contig_step_gt {q p : Nat} {ps : List Nat} (hpq : q < p) :
    Contig (q :: p :: ps) ↔ Incr (p :: ps) := by
  constructor
  · intro h
    -- every later element is ≥ p
    have hge : ∀ l, (hl : l < ps.length) → p ≤ ps[l] := by
      intro l hl
      have := h (max q ps[l] + 1) 0 1 (l+2) (by omega) (by omega) (by simp; omega)
      simp only [List.getD_cons_succ, List.getD_cons_zero, getD_eq hl] at this
      have := this (by omega) (by omega)
      omega
    have hinc : ∀ j l, (hjl : j < l) → (hl : l < ps.length) → ps[j]'(by omega) ≤ ps[l] := by
      intro j l hjl hl
      have hj : j < ps.length := by omega
      have := h (max q ps[l] + 1) 0 (j+2) (l+2) (by omega) (by omega) (by simp; omega)
      simp only [List.getD_cons_succ, List.getD_cons_zero, getD_eq hl,
        getD_eq hj] at this
      have h1 := hge j hj
      have h2 := hge l hl
      have := this (by omega) (by omega)
      omega
    unfold Incr
    rw [List.pairwise_cons]
    refine ⟨?_, ?_⟩
    · intro a ha
      obtain ⟨l, hl, rfl⟩ := List.getElem_of_mem ha
      exact hge l hl
    · exact List.pairwise_iff_getElem.2 (fun i j hi hj hij => hinc i j hij hj)
  · intro h
    have h' : Incr (q :: p :: ps) := by
      unfold Incr at *
      rw [List.pairwise_cons]
      refine ⟨?_, h⟩
      intro a ha
      rcases List.mem_cons.1 ha with rfl | ha
      · omega
      · have := (List.pairwise_cons.1 h).1 a ha; omega
    exact incr_contig h'

theorem valleyAux_false (q : Nat) (ps : List Nat) :
    valleyAux false (some q) ps = true ↔ Contig (q :: ps) := by
  induction ps generalizing q with
  | nil =>
    simp only [valleyAux, true_iff]
    intro k i j l hij hjl hl; simp at hl; omega
  | cons p ps ih =>
    unfold valleyAux
    by_cases h : p > q
    · simp only [h, if_true, Bool.false_eq_true, if_false]
      rw [valleyAux_true, contig_step_gt h]
    · simp only [h, if_false, Bool.false_eq_true]
      rw [ih, contig_step_le (by omega)]

/-- The scan accepts exactly the position lists all of whose lower level sets are contiguous. -/
theorem valley_iff_contig (ps : List Nat) : valley ps = true ↔ Contig ps := by
  cases ps with
  | nil => simp only [valley, valleyAux, true_iff]; intro k i j l _ _ hl; simp at hl
  | cons q ps => simp only [valley, valleyAux]; exact valleyAux_false q ps

end Proto
