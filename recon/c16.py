from common import *
from collections import Counter
from preflibtools.instances import sanity
from c11lib import rand_weak
random.seed(22)
bad={}
def rec(name,*info): bad.setdefault(name,[]).append(info)
def mk_content(kind):
    m=random.randint(1,4); alts=random.sample(range(1,9),m)
    names=[random.choice(['A','B','A__1','A__2']) for _ in alts]
    lines=[]
    if kind=='ord':
        for _ in range(random.randint(1,6)):
            o=rand_weak(random.sample(alts,random.randint(1,m)))
            lines.append((o,random.randint(1,3)))
        if random.random()<0.6: lines+= [random.choice(lines) for _ in range(random.randint(1,3))]
        def fmt(o): return ', '.join(str(c[0]) if len(c)==1 else '{'+', '.join(map(str,c))+'}' for c in o)
        hdr=["# FILE NAME: x.toi","# TITLE: t","# DATA TYPE: toi","# NUMBER ALTERNATIVES: %d"%random.randint(0,9),"# NUMBER VOTERS: %d"%random.randint(0,9),"# NUMBER UNIQUE ORDERS: %d"%random.randint(0,9)]
        hdr+=["# ALTERNATIVE NAME %d: %s"%(a,n) for a,n in zip(alts,names)]
        body=["%d: %s"%(k,fmt(o)) for o,k in lines]
        return 'toi',alts,names,lines,'\n'.join(hdr+body)+'\n'
    else:
        nc=random.randint(1,3); cn=[random.choice(['Y','N','Y__1']) for _ in range(nc)]
        for _ in range(random.randint(1,5)):
            rem=random.sample(alts,m); p=[]
            for c in range(nc):
                k=min(random.choice([0,1,2]),len(rem)); p.append(tuple(rem[:k])); rem=rem[k:]
            lines.append((tuple(p),random.randint(1,3)))
        if random.random()<0.6: lines+= [random.choice(lines) for _ in range(random.randint(1,3))]
        def fmt(p): return ', '.join('{}' if len(c)==0 else str(c[0]) if len(c)==1 else '{'+', '.join(map(str,c))+'}' for c in p)
        hdr=["# FILE NAME: x.cat","# TITLE: t","# DATA TYPE: cat","# NUMBER ALTERNATIVES: %d"%random.randint(0,9),"# NUMBER VOTERS: %d"%random.randint(0,9),"# NUMBER UNIQUE PREFERENCES: %d"%random.randint(0,9),"# NUMBER CATEGORIES: %d"%nc]
        hdr+=["# CATEGORY NAME %d: %s"%(i+1,n) for i,n in enumerate(cn)]
        hdr+=["# ALTERNATIVE NAME %d: %s"%(a,n) for a,n in zip(alts,names)]
        body=["%d: %s"%(k,fmt(p)) for p,k in lines]
        return 'cat',alts,names,lines,'\n'.join(hdr+body)+'\n'
for t in range(3000):
    kind=random.choice(['ord','cat'])
    ext,alts,names,lines,content=mk_content(kind)
    inst=OrdinalInstance() if kind=='ord' else CategoricalInstance()
    try: inst.parse_str(content,ext,autocorrect=True)
    except Exception as e: rec((kind,'exc',type(e).__name__+str(e)[:40]),content); continue
    prefs=inst.orders if kind=='ord' else inst.preferences
    c=Counter()
    for o,k in lines: c[o]+=k
    if len(set(prefs))!=len(prefs): rec((kind,'dup'),content)
    if dict(inst.multiplicity)!=dict(c): rec((kind,'mult'),content)
    nu=inst.num_unique_orders if kind=='ord' else inst.num_unique_preferences
    if inst.num_voters!=sum(c.values()) or nu!=len(c): rec((kind,'counts'),content)
    if inst.num_alternatives!=len(inst.alternatives_name): rec((kind,'numalt'),content)
    vals=list(inst.alternatives_name.values())
    if len(set(vals))!=len(vals): rec((kind,'names-dup'),content)
    # first occurrences unchanged
    seen=set()
    for a,n in zip(alts,names):
        if n not in seen:
            if inst.alternatives_name[a]!=n: rec((kind,'first-changed'),content)
        seen.add(n)
    if kind=='cat':
        cv=list(inst.categories_name.values())
        if len(set(cv))!=len(cv): rec((kind,'cat-names-dup'),content)
print('done')
for k,v in bad.items(): print(k,len(v),min(v,key=lambda x:len(x[0]))[0])
