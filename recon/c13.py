from common import *
from preflibtools.properties.subdomains.ordinal.singlepeaked.single_peaked_tree import is_single_peaked_on_tree
random.seed(4)
def connected(nodes, edges):
    nodes=set(nodes)
    if not nodes: return True
    adj={v:set() for v in nodes}
    for a,b in edges:
        if a in nodes and b in nodes: adj[a].add(b); adj[b].add(a)
    st=[next(iter(nodes))]; seen=set(st)
    while st:
        v=st.pop()
        for w in adj[v]:
            if w not in seen: seen.add(w); st.append(w)
    return seen==nodes
def is_tree(alts, edges):
    if len(edges)!=len(alts)-1: return False
    for a,b in edges:
        if a not in alts or b not in alts or a==b: return False
    return connected(alts, edges)
def spt_ok(os_, edges):
    for o in os_:
        for k in range(1,len(o)+1):
            if not connected(o[:k], edges): return False
    return True
def all_trees(alts):
    m=len(alts)
    if m==1: yield []; return
    if m==2: yield [(alts[0],alts[1])]; return
    for pr in itertools.product(range(m), repeat=m-2):
        deg=[1]*m
        for x in pr: deg[x]+=1
        edges=[]
        pr=list(pr)
        for x in pr:
            for j in range(m):
                if deg[j]==1:
                    edges.append((alts[j],alts[x])); deg[j]-=1; deg[x]-=1; break
        u=[j for j in range(m) if deg[j]==1]
        edges.append((alts[u[0]],alts[u[1]]))
        yield edges
def brute_spt(os_):
    alts=list(os_[0])
    return any(spt_ok(os_,e) for e in all_trees(alts))

if __name__=="__main__":
  exec(compile("bad={}; n=0; npos=0\nfor m in range(2,6):\n    alts=list(range(1,m+1)); perms=list(itertools.permutations(alts))\n    for t in range(1500):\n        os_=random.sample(perms, random.randint(1,min(len(perms),5)))\n        inst=mk_ord([(strict(o),random.randint(1,3)) for o in os_])\n        truth=brute_spt(os_); n+=1; npos+=truth\n        try: res,tree=is_single_peaked_on_tree(inst)\n        except Exception as e: res,tree='EXC:'+type(e).__name__+str(e)[:30],None\n        if res is True:\n            v = is_tree(alts,tree) and spt_ok(os_,tree)\n            if not(truth and v): bad.setdefault(('true-bad',truth,is_tree(alts,tree)),[]).append((os_,tree))\n        elif res is False:\n            if truth: bad.setdefault(('false-neg',),[]).append((os_,))\n        else: bad.setdefault((res,),[]).append((os_,))\nprint(n,npos)\nfor k,v in bad.items(): print(k,len(v),min(v,key=lambda x:(len(x[0][0]),len(x[0]))))\n","x","exec"))
