from common import *
import numpy as np
from collections import Counter
from preflibtools.instances import sanity
from preflibtools.properties.basic import *
from c11lib import rand_weak
random.seed(16)
bad={}
def rec(name,*info): bad.setdefault(name,[]).append(info)
def check(inst, votes, tag):
    c=Counter(votes)
    if dict(inst.multiplicity)!=dict(c): rec((tag,'mult'),votes); return
    if inst.num_voters!=len(votes): rec((tag,'nv'),votes)
    if inst.num_unique_orders!=len(c): rec((tag,'nu'),votes)
    alts=set(a for o in votes for cl in o for a in cl)
    if set(inst.alternatives_name)!=alts or inst.num_alternatives!=len(alts): rec((tag,'alts'),votes)
    if len(inst.orders)!=len(set(inst.orders)) or set(inst.orders)!=set(c): rec((tag,'orders'),votes)
    if Counter(inst.full_profile())!=c: rec((tag,'full'),votes)
    if inst.vote_map()!=dict(c): rec((tag,'vm'),votes)
    if inst.data_type!=inst.infer_type(): rec((tag,'dt'),votes)
    st=all(len(cl)==1 for o in votes for cl in o); co=all(sum(len(cl) for cl in o)==len(alts) for o in votes)
    exp={(True,True):'soc',(True,False):'soi',(False,True):'toc',(False,False):'toi'}[(st,co)]
    if inst.data_type!=exp: rec((tag,'dtexp',inst.data_type,exp),votes)
    try:
        if is_strict(inst)!=st or is_complete(inst)!=co: rec((tag,'strict/complete'),votes)
    except Exception as e: rec((tag,'basic-exc',type(e).__name__),votes)
    with quiet(): errs=sanity.orders(inst)
    errs=[e for e in errs if '0 appears' not in e]
    if errs: rec((tag,'sanity',errs[0][:40]),votes)
for t in range(3000):
    m=random.randint(1,4); alts=list(range(0,m)) if random.random()<0.3 else random.sample(range(1,9),m)
    inst=OrdinalInstance(); votes=[]
    for _ in range(random.randint(1,5)):
        op=random.choice(['order','list','array','vm'])
        if op=='order':
            o=random.sample(alts,random.randint(1,m)); inst.append_order(o); votes.append(strict(o))
        elif op=='array':
            k=random.randint(1,m); arr=np.array([random.sample(alts,k) for _ in range(random.randint(1,3))]); inst.append_order_array(arr); votes+= [strict(tuple(int(x) for x in r)) for r in arr]
        elif op=='list':
            l=[rand_weak(random.sample(alts,random.randint(1,m))) for _ in range(random.randint(0,3))]; inst.append_order_list(l); votes+=l
        else:
            vm={}
            for _ in range(random.randint(0,3)): vm[rand_weak(random.sample(alts,random.randint(1,m)))]=random.randint(1,3)
            inst.append_vote_map(vm)
            for o,k in vm.items(): votes+=[o]*k
        if votes: check(inst,votes,op)
for k,v in bad.items(): print(k,len(v),min(v,key=lambda x:len(x[0])))
i=OrdinalInstance(); i.populate_IC(10,3); print(i.data_type, i.num_voters, type(list(i.alternatives_name)[0]))
with quiet(): e=sanity.orders(i)
print(e)
