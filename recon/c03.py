from common import *
from preflibtools.properties.subdomains.ordinal.singlepeaked.singlepeakedness import is_single_peaked, is_single_peaked_axis
random.seed(1)
bad = {}
n=0
for m in range(1, 6):
    alts = list(range(1, m+1))
    perms = list(itertools.permutations(alts))
    for trial in range(4000 if m>2 else 50):
        k = random.randint(1, min(len(perms), 5))
        os_ = random.sample(perms, k)
        inst = mk_ord([(strict(o), random.randint(1,3)) for o in os_])
        try:
            res, axis = is_single_peaked(inst)
        except Exception as e:
            res, axis = 'EXC:'+type(e).__name__+str(e)[:40], None
        truth = brute_sp(os_)
        n+=1
        if res is True:
            ok = truth and sp_axis_ok(os_, axis)
            if not ok:
                key = ('true-bad', truth, sorted(axis)==alts)
                bad.setdefault(key, []).append((os_, axis))
        elif res is False:
            if truth:
                bad.setdefault(('false-neg',), []).append((os_, axis))
        else:
            bad.setdefault((res,), []).append((os_, truth))
print(n)
for k, v in bad.items():
    print(k, len(v), min(v, key=lambda x: (len(x[0][0]), len(x[0]))))
