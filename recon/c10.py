from common import *
import tempfile, os, pathlib
from preflibtools.instances import get_parsed_instance
d=tempfile.mkdtemp()
base_soc="# FILE NAME: a.toc\n# TITLE: t\n# DESCRIPTION: \n# DATA TYPE: toc\n# MODIFICATION TYPE: original\n# RELATES TO: \n# RELATED FILES: \n# PUBLICATION DATE: \n# MODIFICATION DATE: \n# NUMBER ALTERNATIVES: 3\n# NUMBER VOTERS: 5\n# NUMBER UNIQUE ORDERS: 2\n# ALTERNATIVE NAME 1: a\n# ALTERNATIVE NAME 2: b\n# ALTERNATIVE NAME 3: c\n3: 1, {2, 3}\n2: {3, 1}, 2\n"
base_cat="# FILE NAME: a.cat\n# TITLE: t\n# DESCRIPTION: \n# DATA TYPE: cat\n# MODIFICATION TYPE: original\n# RELATES TO: \n# RELATED FILES: \n# PUBLICATION DATE: \n# MODIFICATION DATE: \n# NUMBER ALTERNATIVES: 3\n# NUMBER VOTERS: 5\n# NUMBER UNIQUE PREFERENCES: 2\n# NUMBER CATEGORIES: 2\n# CATEGORY NAME 1: Y\n# CATEGORY NAME 2: N\n# ALTERNATIVE NAME 1: a\n# ALTERNATIVE NAME 2: b\n# ALTERNATIVE NAME 3: c\n3: 1, {2, 3}\n2: {}, 2\n"
base_wmd="# FILE NAME: a.wmd\n# TITLE: t\n# DESCRIPTION: \n# DATA TYPE: wmd\n# MODIFICATION TYPE: original\n# RELATES TO: \n# RELATED FILES: \n# PUBLICATION DATE: \n# MODIFICATION DATE: \n# NUMBER ALTERNATIVES: 3\n# NUMBER EDGES: 2\n# ALTERNATIVE NAME 1: a\n# ALTERNATIVE NAME 2: b\n# ALTERNATIVE NAME 3: c\n1, 2, 0.5\n2, 3, 1.0\n"
def snap(i):
    s={k:v for k,v in vars(i).items() if k not in ('alt_name_pattern','file_path','file_name','preferences')}
    return repr(sorted(s.items(),key=lambda kv:kv[0]))
def variants(c):
    yield 'plain',c
    yield 'crlf',c.replace('\n','\r\n')
    yield 'cr',c.replace('\n','\r')
    yield 'ws',''.join('  \t'+l+' \t \n' for l in c.splitlines())
    yield 'noeol',c.rstrip('\n')
    yield 'spaces',c.replace(', ',',   ').replace(': ',':    ') 
    yield 'nospace','\n'.join(l if l.startswith('#') else l.replace(' ','') for l in c.splitlines())+'\n'
    yield 'blank-end',c+'\n'
    yield 'blank-mid',c.replace('\n3:','\n\n3:')
    yield 'tabs','\n'.join(l if l.startswith('#') else l.replace(' ','\t') for l in c.splitlines())+'\n'
for ext,cls,c in (('toc',OrdinalInstance,base_soc),('cat',CategoricalInstance,base_cat),('wmd',MatchingInstance,base_wmd)):
    ref=None
    for vn,vc in variants(c):
        p=os.path.join(d,'a.'+ext); open(p,'w',newline='').write(vc)
        outs={}
        for en in ('file','str','url','gpi'):
            for ho in (False,True):
                i=cls()
                try:
                    if en=='file': i.parse_file(p,header_only=ho)
                    elif en=='str': i.parse_str(vc,ext,header_only=ho)
                    elif en=='url': i.parse_url(pathlib.Path(p).as_uri(),header_only=ho)
                    else: i=get_parsed_instance(p,header_only=ho)
                    outs[(en,ho)]=snap(i)
                except Exception as e: outs[(en,ho)]='EXC:'+type(e).__name__
        if ref is None: ref=outs
        for k in outs:
            if outs[k]!=ref[k]: print(ext,vn,k,'DIFF', outs[k][:100] if outs[k].startswith('EXC') else '')
        if len(set(outs[(e,False)] for e in ('file','str','url','gpi')))!=1: print(ext,vn,'entry points disagree (full)')
        if len(set(outs[(e,True)] for e in ('file','str','url','gpi')))!=1: print(ext,vn,'entry points disagree (header)')
    print(ext,'header-only snapshot:',ref[('file',True)][:300])
# mismatch
for cls in (OrdinalInstance,CategoricalInstance,MatchingInstance):
    for ext,c in (('toc',base_soc),('cat',base_cat),('wmd',base_wmd),('soi',base_soc),('xyz',base_soc)):
        i=cls()
        try: i.parse_str(c,ext); r='ok'
        except Exception as e: r=type(e).__name__
        print(cls.__name__,ext,r, len(getattr(i,'orders',[]) or getattr(i,'preferences',[]) or []), end=' | ')
    print()
