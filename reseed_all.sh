#!/bin/bash
# re-run the quick check of every seeded change (scratch worktrees, parallel) and list the ones that are no longer reported
cd /verif
python3 - <<'PY' > /tmp/mut/reseed_list.txt
import json, glob
for f in sorted(glob.glob('/verif/seeded/*/meta.json')):
    m = json.load(open(f))
    if m.get("not_detected_reason"): continue
    print(m["id"], m.get("detected_by") or m["property"])
PY
cat /tmp/mut/reseed_list.txt | xargs -P ${PAR:-14} -L 1 ./wtcheck.sh 2>&1 | grep -v conda > /tmp/mut/reseed_out.txt
python3 - <<'PY'
import re
ids = [l.split()[0] for l in open('/tmp/mut/reseed_list.txt')]
txt = open('/tmp/mut/reseed_out.txt').read()
det = set(re.findall(r'^(\S+) C\d\d: VIOLATION', txt, flags=re.M))
# multi-line outputs: a block starts with "<id> Cxx:" and VIOLATION may be on following lines
cur = None
for line in txt.splitlines():
    m = re.match(r'^(\S+-\S+) C\d\d:', line)
    if m: cur = m.group(1)
    if 'VIOLATION property=' in line and cur: det.add(cur)
missing = [i for i in ids if i not in det]
print(len(ids), "seeded changes re-run;", len(missing), "not reported:", missing)
PY
