#!/bin/bash
# usage: ingest_mutant.sh <Cxx> <k> [extra check ids...]
# Confirms a seeded change independently in a scratch worktree of /repo (demo fails with it, passes
# without, whole suite still passes), runs the registered checks against that worktree
# (VERIF_REPO=<worktree> ./check …, equivalent to `git -C /repo apply` + check + `git checkout`), stores
# the change under seeded/<id>/ and removes the worktree.
set -u
P="$1"; K="$2"; shift 2; EXTRA="$*"
ROUND="${ROUND:-1}"
if [ "$ROUND" = "1" ]; then SRC=/tmp/mut/out_$P; ID="${P}-m${K}"; else SRC=/tmp/mut/out${ROUND}_$P; ID="${P}-r${ROUND}m${K}"; fi
WT=/tmp/mut/verify_$ID
[ -f "$SRC/m$K.diff" ] || { echo "$ID: no diff"; exit 2; }
git -C /repo worktree add -q --detach "$WT" HEAD || exit 2
cd "$WT"
R_CLEAN=$(PYTHONPATH=$WT timeout 300 /venv/bin/python "$SRC/m${K}_demo.py" >/dev/null 2>&1; echo $?)
if ! git apply "$SRC/m$K.diff"; then echo "$ID: patch does not apply"; cd /; git -C /repo worktree remove --force "$WT"; exit 2; fi
R_MUT=$(PYTHONPATH=$WT timeout 300 /venv/bin/python "$SRC/m${K}_demo.py" >/dev/null 2>&1; echo $?)
SUITE=$(PYTHONPATH=$WT timeout 1500 /venv/bin/python -m pytest -q -p no:cacheprovider --timeout=900 2>&1 | tail -1)
RES=""
for p in $P $EXTRA; do
  o=$(cd /verif && VERIF_REPO=$WT timeout 1800 ./check "$p" 2>&1 | grep -E "VIOLATION|KNOWN|HARNESS|Traceback|quick seed" | head -6)
  RES="$RES$o"$'\n'
done
cd /; git -C /repo worktree remove --force "$WT"
OUT=/verif/seeded/$ID
mkdir -p "$OUT"; cp "$SRC/m$K.diff" "$OUT/patch.diff"; cp "$SRC/m${K}_demo.py" "$OUT/demo.py"; [ -f "$SRC/m$K.json" ] && cp "$SRC/m$K.json" "$OUT/author.json"
python3 - "$ID" "$P" "$R_CLEAN" "$R_MUT" "$SUITE" "$RES" <<'PY'
import json,sys,os
ID,P,rc,rm,suite,res=sys.argv[1:7]
out=f"/verif/seeded/{ID}"
author={}
if os.path.exists(out+"/author.json"):
    try: author=json.load(open(out+"/author.json"))
    except Exception: author={}
    os.remove(out+"/author.json")
meta={"id":ID,"property":P,"summary":author.get("summary"),"site":author.get("site"),"needs":author.get("needs"),
      "confirmed":{"demo_exit_on_clean_tree":int(rc),"demo_exit_with_change":int(rm),"suite_with_change":suite},
      "ran":f"ingest_mutant.sh {P} {ID.rsplit('m',1)[1]}: scratch worktree of /repo; demo on clean tree and with the change; whole pytest suite with the change; ./check with VERIF_REPO pointing at the changed worktree",
      "check_output":[l for l in res.splitlines() if l.strip()],
      "detected":("VIOLATION property=") in res}
json.dump(meta,open(out+"/meta.json","w"),indent=1)
print(ID, "demo clean/mutant", rc, rm, "|", suite, "|", "DETECTED" if meta["detected"] else "MISSED")
PY
