"""usage: ingest_harmless.py <Cxx> <k> [extra Cxx ...] -- store the behaviour-preserving rewrite /tmp/mut/outh_<Cxx>/h<k>.* under
harmless/<Cxx>-h<k>/ (patch.diff, demo.py, meta.json) after confirming it in a scratch worktree: demo exits 0 with and
without the rewrite, and the registered quick check(s) stay silent (exit 0, no VIOLATION line)."""
import json, os, shutil, subprocess, sys
VERIF = os.path.dirname(os.path.dirname(os.path.abspath(__file__)))
P, K, extra = sys.argv[1], sys.argv[2], sys.argv[3:]
sid = f"{P}-h{K}"
src = f"/tmp/mut/outh_{P}"
out = os.path.join(VERIF, "harmless", sid)
os.makedirs(out, exist_ok=True)
shutil.copy(f"{src}/h{K}.diff", f"{out}/patch.diff")
shutil.copy(f"{src}/h{K}_demo.py", f"{out}/demo.py")
author = {}
try:
    author = json.load(open(f"{src}/h{K}.json"))
except Exception:
    pass
wt = f"/tmp/mut/harmv_{sid}.{os.getpid()}"
subprocess.run(["git", "-C", "/repo", "worktree", "add", "-q", "--detach", wt, "HEAD"], check=True)
env = dict(os.environ, PYTHONPATH=wt)
def demo():
    return subprocess.run(["/venv/bin/python", f"{out}/demo.py"], cwd=wt, env=env, capture_output=True, timeout=1200).returncode
rc_clean = demo()
ok = subprocess.run(["git", "apply", f"{out}/patch.diff"], cwd=wt).returncode == 0
rc_new = demo() if ok else None
lines, silent = [], ok
for p in [P] + extra:
    r = subprocess.run([os.path.join(VERIF, "check"), p], cwd=VERIF, env=dict(os.environ, VERIF_REPO=wt), capture_output=True, text=True, timeout=3000)
    o = [l for l in (r.stdout + r.stderr).splitlines() if any(t in l for t in ("VIOLATION", "HARNESS", "Traceback", "quick seed"))][:4]
    lines += [f"{p}: exit {r.returncode}"] + o
    if r.returncode != 0 or any("VIOLATION" in l for l in o):
        silent = False
subprocess.run(["git", "-C", "/repo", "worktree", "remove", "--force", wt])
meta = {"id": sid, "property": P, "summary": author.get("summary"), "site": author.get("site"), "kind": author.get("kind"),
        "preserved": author.get("preserved"),
        "confirmed": {"demo_exit_on_clean_tree": rc_clean, "demo_exit_with_rewrite": rc_new, "patch_applies": ok},
        "check_output": lines, "silent": silent}
json.dump(meta, open(f"{out}/meta.json", "w"), indent=1)
print(sid, "demo clean/new", rc_clean, rc_new, "SILENT" if silent else "ALARM")
