"""Shared generators and instance builders.  Instances are built by setting the attributes
directly (not through the append_* API, which is itself under test in C02)."""
import itertools
import random


def perm(rng, alts):
    l = list(alts)
    rng.shuffle(l)
    return l


def alt_ids(rng, m, style=None, zero_ok=False):
    """m distinct positive ids: 1..m, shifted, or sparse/multi-digit (with zero_ok: sometimes 0..m-1)."""
    style = style or rng.choice(["1m", "1m", "1m", "shift", "shift", "sparse", "sparse", "huge"] + (["0m"] * 2 if zero_ok else []))
    if style == "0m":
        return list(range(0, m))
    if style == "huge":
        base = rng.choice([10 ** 6, 2 ** 31 - 2, 2 ** 62, 10 ** 18])   # all below 2**63: numpy int64 arrays are a documented input type
        return sorted(rng.sample(range(base, base + 5 * m + 5), m))
    if style == "1m":
        return list(range(1, m + 1))
    if style == "shift":
        s = rng.randint(2, 40)
        return list(range(s, s + m))
    return sorted(rng.sample(range(1, 400), m))


def strict_orders(rng, alts, n, distinct=True):
    out, seen = [], set()
    tries = 0
    while len(out) < n and tries < 50 * n + 50:
        tries += 1
        o = tuple(perm(rng, alts))
        if distinct and o in seen:
            continue
        seen.add(o)
        out.append(o)
    return out


def weak_order(rng, alts, complete=True, tie_p=0.4):
    l = perm(rng, alts)
    if not complete and len(l) > 1:
        l = l[: rng.randint(1, len(l))]
    order, cur = [], [l[0]]
    for a in l[1:]:
        if rng.random() < tie_p:
            cur.append(a)
        else:
            order.append(tuple(cur))
            cur = [a]
    order.append(tuple(cur))
    return tuple(order)


def infer_type(orders, m):
    strict = all(len(c) == 1 for o in orders for c in o)
    complete = all(sum(len(c) for c in o) == m for o in orders)
    return {(True, True): "soc", (True, False): "soi", (False, True): "toc", (False, False): "toi"}[
        (strict, complete)]


def make_ordinal(profile, alts=None, data_type=None, names=None):
    """profile: list of (order, mult) with order a tuple of tuples; insertion order kept."""
    from preflibtools.instances import OrdinalInstance

    inst = OrdinalInstance()
    if alts is None:
        alts = []
        for o, _ in profile:
            for c in o:
                for a in c:
                    if a not in alts:
                        alts.append(a)
    for a in alts:
        inst.alternatives_name[a] = (names or {}).get(a, "Alternative " + str(a))
    inst.num_alternatives = len(alts)
    for o, mlt in profile:
        o = tuple(tuple(c) for c in o)
        if o in inst.multiplicity:
            inst.multiplicity[o] += mlt
        else:
            inst.orders.append(o)
            inst.multiplicity[o] = mlt
    inst.num_voters = sum(inst.multiplicity.values())
    inst.num_unique_orders = len(inst.orders)
    inst.data_type = data_type or infer_type(inst.orders, len(alts))
    return inst


def strict_profile(rng, m, n, max_mult=3, style=None):
    alts = alt_ids(rng, m, style)
    orders = strict_orders(rng, alts, n)
    return alts, [(tuple((a,) for a in o), rng.randint(1, max_mult)) for o in orders]


def to_json_profile(profile):
    return [[[list(c) for c in o], m] for o, m in profile]


def from_json_profile(jp):
    return [(tuple(tuple(c) for c in o), m) for o, m in jp]


def flat(order):
    return [c[0] for c in order]


def ordinal_case(rng, m=None, n=None, kind=None, max_mult=4, style=None, tie_p=0.4):
    """A well-formed ordinal instance as a JSON-able dict {type, alts, profile}."""
    m = m or rng.randint(2, 6)
    n = n or rng.randint(1, 6)
    kind = kind or rng.choice(["soc", "soi", "toc", "toi"])
    alts = alt_ids(rng, m, style)
    alts_store = perm(rng, alts) if rng.random() < 0.3 else alts
    orders, seen = [], set()
    tries = 0
    while len(orders) < n and tries < 40 * n + 40:
        tries += 1
        if kind in ("soc", "soi"):
            l = perm(rng, alts)
            if kind == "soi" and rng.random() < 0.7 and m > 1:
                l = l[: rng.randint(1, m)]
            o = tuple((a,) for a in l)
        else:
            o = weak_order(rng, alts, complete=(kind == "toc") or rng.random() < 0.3, tie_p=tie_p)
        if o in seen:
            continue
        seen.add(o)
        orders.append(o)
    prof = [(o, rng.randint(1, max_mult)) for o in orders]
    return {"type": infer_type(orders, m), "alts": alts_store, "profile": to_json_profile(prof)}


def inst_of(case, data_type=None):
    return make_ordinal(from_json_profile(case["profile"]), alts=case["alts"],
                        data_type=data_type or case["type"])


def model_inst(case, **extra):
    d = {"type": case["type"], "alts": case["alts"], "profile": case["profile"]}
    d.update(extra)
    return d


def shrink_profile_case(case):
    """generic shrinking of {alts, profile}: drop an order, lower a multiplicity, drop an alternative"""
    prof = case["profile"]
    for i in range(len(prof)):
        if len(prof) > 1:
            yield dict(case, profile=prof[:i] + prof[i + 1:])
    for i in range(len(prof)):
        if prof[i][1] > 1:
            p2 = [list(x) for x in prof]
            p2[i][1] = p2[i][1] // 2 if p2[i][1] > 3 else p2[i][1] - 1
            yield dict(case, profile=p2)
    if len(case["alts"]) > 2:
        for x in case["alts"]:
            p2, ok, seen = [], True, set()
            for o, mlt in prof:
                o2 = [[a for a in c if a != x] for c in o]
                o2 = [c for c in o2 if c]
                key = repr(o2)
                if not o2 or key in seen:
                    ok = False
                    break
                seen.add(key)
                p2.append([o2, mlt])
            if ok:
                c2 = dict(case, alts=[a for a in case["alts"] if a != x], profile=p2)
                if "type" in case:
                    c2["type"] = infer_type([tuple(tuple(c) for c in o) for o, _ in p2], len(c2["alts"]))
                yield c2


def grown_instance(profile, alts, expected_type, warm):
    """The instance built through the public API in two stages on ONE object: add the first ballots,
    run `warm(inst)` (e.g. query it once), add the rest.  Returns None when the API-built instance
    would not have the intended data type or alternative set (then the caller builds it directly)."""
    from preflibtools.instances import OrdinalInstance
    if len(profile) < 2:
        return None
    inst = OrdinalInstance()
    cut = max(1, len(profile) // 2)
    inst.append_vote_map({tuple(tuple(c) for c in o): m for o, m in profile[:cut]})
    try:
        warm(inst)
    except Exception:
        pass
    inst.append_vote_map({tuple(tuple(c) for c in o): m for o, m in profile[cut:]})
    if inst.data_type != expected_type or set(inst.alternatives_name) != set(alts):
        return None
    return inst
