"""Shared generators and instance builders.  Instances are built by setting the attributes
directly (not through the append_* API, which is itself under test in C02)."""
import itertools
import random


def perm(rng, alts):
    l = list(alts)
    rng.shuffle(l)
    return l


def alt_ids(rng, m, style=None):
    """m distinct positive ids: 1..m, shifted, or sparse/multi-digit."""
    style = style or rng.choice(["1m", "1m", "shift", "sparse"])
    if style == "1m":
        return list(range(1, m + 1))
    if style == "shift":
        s = rng.randint(2, 40)
        return list(range(s, s + m))
    return sorted(rng.sample(range(1, 400), m))


def strict_orders(rng, alts, n, distinct=True):
    out, seen = [], set()
    tries = 0
    while len(out) < n and tries < 50 * n + 50:
        tries += 1
        o = tuple(perm(rng, alts))
        if distinct and o in seen:
            continue
        seen.add(o)
        out.append(o)
    return out


def weak_order(rng, alts, complete=True, tie_p=0.4):
    l = perm(rng, alts)
    if not complete and len(l) > 1:
        l = l[: rng.randint(1, len(l))]
    order, cur = [], [l[0]]
    for a in l[1:]:
        if rng.random() < tie_p:
            cur.append(a)
        else:
            order.append(tuple(cur))
            cur = [a]
    order.append(tuple(cur))
    return tuple(order)


def infer_type(orders, m):
    strict = all(len(c) == 1 for o in orders for c in o)
    complete = all(sum(len(c) for c in o) == m for o in orders)
    return {(True, True): "soc", (True, False): "soi", (False, True): "toc", (False, False): "toi"}[
        (strict, complete)]


def make_ordinal(profile, alts=None, data_type=None, names=None):
    """profile: list of (order, mult) with order a tuple of tuples; insertion order kept."""
    from preflibtools.instances import OrdinalInstance

    inst = OrdinalInstance()
    if alts is None:
        alts = []
        for o, _ in profile:
            for c in o:
                for a in c:
                    if a not in alts:
                        alts.append(a)
    for a in alts:
        inst.alternatives_name[a] = (names or {}).get(a, "Alternative " + str(a))
    inst.num_alternatives = len(alts)
    for o, mlt in profile:
        o = tuple(tuple(c) for c in o)
        if o in inst.multiplicity:
            inst.multiplicity[o] += mlt
        else:
            inst.orders.append(o)
            inst.multiplicity[o] = mlt
    inst.num_voters = sum(inst.multiplicity.values())
    inst.num_unique_orders = len(inst.orders)
    inst.data_type = data_type or infer_type(inst.orders, len(alts))
    return inst


def strict_profile(rng, m, n, max_mult=3, style=None):
    alts = alt_ids(rng, m, style)
    orders = strict_orders(rng, alts, n)
    return alts, [(tuple((a,) for a in o), rng.randint(1, max_mult)) for o in orders]


def to_json_profile(profile):
    return [[[list(c) for c in o], m] for o, m in profile]


def from_json_profile(jp):
    return [(tuple(tuple(c) for c in o), m) for o, m in jp]


def flat(order):
    return [c[0] for c in order]
