"""Shared generators and instance builders.  Instances are built by setting the attributes
directly (not through the append_* API, which is itself under test in C02)."""
import itertools
import random


def perm(rng, alts):
    l = list(alts)
    rng.shuffle(l)
    return l


def alt_ids(rng, m, style=None, zero_ok=False):
    """m distinct positive ids: 1..m, shifted, or sparse/multi-digit (with zero_ok: sometimes 0..m-1)."""
    style = style or rng.choice(["1m", "1m", "1m", "shift", "shift", "sparse", "sparse", "huge", "concat", "stride"] + (["0m"] * 2 if zero_ok else []))
    if style == "0m":
        return list(range(0, m))
    if style == "huge":
        base = rng.choice([10 ** 6, 2 ** 31 - 2, 2 ** 62, 10 ** 18])   # all below 2**63: numpy int64 arrays are a documented input type
        return sorted(rng.sample(range(base, base + 5 * m + 5), m))
    if style == "concat" and m <= 14:
        # ids whose decimal spellings run into each other when concatenated (1|11 = 11|1, 12|1 = 1|21, …)
        return sorted(rng.sample([1, 2, 11, 12, 21, 22, 111, 112, 121, 122, 211, 212, 221, 222], m))
    if style == "stride":
        # ids that differ by multiples of m (a, a+1, b, b+m, …): pair encodings such as a*m+b collide on them
        s0 = rng.randint(0 if zero_ok else 1, 6)
        pool = sorted(set(s0 + i + j * m for j in range(3) for i in range(m)))
        ids = set()
        if m >= 4:
            a = rng.choice(pool[:m])
            b = rng.choice([x for x in pool[:2 * m] if x not in (a, a + 1) and x + m not in (a, a + 1)])
            ids = {a, a + 1, b, b + m}
        rest = [x for x in pool if x not in ids]
        return sorted(ids | set(rng.sample(rest, m - len(ids))))
    if style == "1m":
        return list(range(1, m + 1))
    if style == "shift":
        s = rng.randint(2, 40)
        return list(range(s, s + m))
    return sorted(rng.sample(range(1, 400), m))


def strict_orders(rng, alts, n, distinct=True):
    out, seen = [], set()
    tries = 0
    while len(out) < n and tries < 50 * n + 50:
        tries += 1
        o = tuple(perm(rng, alts))
        if distinct and o in seen:
            continue
        seen.add(o)
        out.append(o)
    return out


def weak_order(rng, alts, complete=True, tie_p=0.4):
    l = perm(rng, alts)
    if not complete and len(l) > 1:
        l = l[: rng.randint(1, len(l))]
    order, cur = [], [l[0]]
    for a in l[1:]:
        if rng.random() < tie_p:
            cur.append(a)
        else:
            order.append(tuple(cur))
            cur = [a]
    order.append(tuple(cur))
    return tuple(order)


def infer_type(orders, m):
    strict = all(len(c) == 1 for o in orders for c in o)
    complete = all(sum(len(c) for c in o) == m for o in orders)
    return {(True, True): "soc", (True, False): "soi", (False, True): "toc", (False, False): "toi"}[
        (strict, complete)]


def make_ordinal(profile, alts=None, data_type=None, names=None):
    """profile: list of (order, mult) with order a tuple of tuples; insertion order kept."""
    from preflibtools.instances import OrdinalInstance

    inst = OrdinalInstance()
    if alts is None:
        alts = []
        for o, _ in profile:
            for c in o:
                for a in c:
                    if a not in alts:
                        alts.append(a)
    for a in alts:
        inst.alternatives_name[a] = (names or {}).get(a, "Alternative " + str(a))
    inst.num_alternatives = len(alts)
    for o, mlt in profile:
        o = tuple(tuple(c) for c in o)
        if o in inst.multiplicity:
            inst.multiplicity[o] += mlt
        else:
            inst.orders.append(o)
            inst.multiplicity[o] = mlt
    inst.num_voters = sum(inst.multiplicity.values())
    inst.num_unique_orders = len(inst.orders)
    inst.data_type = data_type or infer_type(inst.orders, len(alts))
    return inst


def strict_profile(rng, m, n, max_mult=3, style=None):
    alts = alt_ids(rng, m, style)
    orders = strict_orders(rng, alts, n)
    return alts, [(tuple((a,) for a in o), rng.randint(1, max_mult)) for o in orders]


def to_json_profile(profile):
    return [[[list(c) for c in o], m] for o, m in profile]


def from_json_profile(jp):
    return [(tuple(tuple(c) for c in o), m) for o, m in jp]


def flat(order):
    return [c[0] for c in order]


def ordinal_case(rng, m=None, n=None, kind=None, max_mult=4, style=None, tie_p=0.4, allow_big=True):
    """A well-formed ordinal instance as a JSON-able dict {type, alts, profile}."""
    m = m or rng.randint(2, 6)
    n = n or rng.randint(1, 6)
    if allow_big and m > 1 and rng.random() < 0.08:
        # sizes past every single-digit boundary: two-digit numbers of alternatives and of distinct orders,
        # multiplicities far beyond the number of orders
        m = rng.randint(9, 14)
        n = rng.randint(7, 25)
        if rng.random() < 0.25:
            # ... and past the usual powers of two (chunk, cache and width boundaries)
            m = rng.choice([17, 33])
            n = rng.choice([12, 40])
        max_mult = rng.choice([max_mult, 100, 1000, "huge"])
    kind = kind or rng.choice(["soc", "soi", "toc", "toi"])
    alts = alt_ids(rng, m, style)
    alts_store = perm(rng, alts) if rng.random() < 0.3 else alts
    orders, seen = [], set()
    tries = 0
    while len(orders) < n and tries < 40 * n + 40:
        tries += 1
        if kind in ("soc", "soi"):
            l = perm(rng, alts)
            if kind == "soi" and rng.random() < 0.7 and m > 1:
                l = l[: rng.randint(1, m)]
            o = tuple((a,) for a in l)
        else:
            o = weak_order(rng, alts, complete=(kind == "toc") or rng.random() < 0.3, tie_p=tie_p)
        if o in seen:
            continue
        seen.add(o)
        orders.append(o)
    if max_mult == "huge":
        # electorates far too large to list voter by voter (one-voter majorities included): the driver is asked
        # not to evaluate the voter-level specification (`nospec`); the model, proved equal to it, stands in
        base = rng.choice([500000, 10 ** 6, 2 ** 53, 10 ** 18])
        prof = [(o, base + rng.choice([0, 0, 1, 2, 7])) for o in orders]
    else:
        prof = [(o, rng.randint(1, max_mult)) for o in orders]
    d = {"type": infer_type(orders, m), "alts": alts_store, "profile": to_json_profile(prof)}
    if sum(k for _, k in prof) > 20000:
        d["nospec"] = True
    return d


def inst_of(case, data_type=None):
    return make_ordinal(from_json_profile(case["profile"]), alts=case["alts"],
                        data_type=data_type or case["type"])


def model_inst(case, **extra):
    d = {"type": case["type"], "alts": case["alts"], "profile": case["profile"]}
    nv, m = sum(k for _, k in case["profile"]), len(case["alts"])
    if case.get("nospec") or nv > 20000 or nv * m ** 3 > 500000:
        d["nospec"] = True      # the voter-by-voter specification costs about nv * m^3 steps
    d.update(extra)
    return d


def shrink_profile_case(case):
    """generic shrinking of {alts, profile}: drop an order, lower a multiplicity, drop an alternative"""
    prof = case["profile"]
    for i in range(len(prof)):
        if len(prof) > 1:
            yield dict(case, profile=prof[:i] + prof[i + 1:])
    for i in range(len(prof)):
        if prof[i][1] > 1:
            p2 = [list(x) for x in prof]
            p2[i][1] = p2[i][1] // 2 if p2[i][1] > 3 else p2[i][1] - 1
            yield dict(case, profile=p2)
    if len(case["alts"]) > 2:
        for x in case["alts"]:
            p2, ok, seen = [], True, set()
            for o, mlt in prof:
                o2 = [[a for a in c if a != x] for c in o]
                o2 = [c for c in o2 if c]
                key = repr(o2)
                if not o2 or key in seen:
                    ok = False
                    break
                seen.add(key)
                p2.append([o2, mlt])
            if ok:
                c2 = dict(case, alts=[a for a in case["alts"] if a != x], profile=p2)
                if "type" in case:
                    c2["type"] = infer_type([tuple(tuple(c) for c in o) for o, _ in p2], len(c2["alts"]))
                yield c2


def _stable(obj):
    import hashlib
    return int(hashlib.sha256(repr(obj).encode()).hexdigest()[:8], 16)


def _add_batch(inst, batch, via):
    """add [(order, mult)] to an OrdinalInstance through one public entry point"""
    import numpy as np
    if via == "vote_map":
        inst.append_vote_map({tuple(tuple(c) for c in o): m for o, m in batch})
    elif via == "order_list":
        inst.append_order_list([tuple(tuple(c) for c in o) for o, m in batch for _ in range(m)])
    elif via == "order":
        for o, m in batch:
            for _ in range(m):
                inst.append_order(tuple(c[0] for c in o))
    elif via == "order_array":
        rows = [[c[0] for c in o] for o, m in batch for _ in range(m)]
        if rows:
            # the documented input is a 2D numpy array: an int64 one where the ids fit (its rows hold numpy
            # integers, equal to and hashing like the Python ints), an object array otherwise
            small = all(0 <= a < 2 ** 62 for r in rows for a in r)
            use64 = small and _stable(rows) % 2 == 0
            inst.append_order_array(np.array(rows, dtype=np.int64 if use64 else object))
    else:
        raise ValueError(via)


def _entry_points(batch):
    if any(m > 2000 for _, m in batch):
        return ["vote_map"]          # the other entry points take one ballot per voter
    vias = ["vote_map", "order_list"]
    if batch and all(len(c) == 1 for o, _ in batch for c in o):
        vias.append("order")
        if len({len(o) for o, _ in batch}) == 1:
            vias.append("order_array")
    return vias


def grown_instance(profile, alts, expected_type, warm):
    """The instance built through the public API in two stages on ONE object: add the first ballots,
    run `warm(inst)` (e.g. query it once), add the rest.  The entry point of each stage
    (append_vote_map / append_order_list / append_order / append_order_array, where the ballots allow it)
    and whether part of the multiplicity of an already-added order is held back for the second stage are
    derived from the profile, so the same case always builds the same way.  The result has the same
    orders, in the same storage order, with the same multiplicities as the directly built instance.
    Returns None when the API-built instance would not have the intended data type or alternative set
    (then the caller builds it directly)."""
    from preflibtools.instances import OrdinalInstance
    h = _stable(profile)
    inst = OrdinalInstance()
    if len(profile) == 1:
        # all voters identical: the single order is cast in two stages
        (o, m), = profile
        if m < 2:
            return None
        k = 1 + h % (m - 1)
        first, second = [(o, k)], [(o, m - k)]
    else:
        cut = max(1, len(profile) // 2)
        first = [(o, m) for o, m in profile[:cut]]
        second = [(o, m) for o, m in profile[cut:]]
    if len(profile) > 1 and h % 3 != 0:
        # hold back part of the multiplicity of the orders of the first stage
        held = []
        for k, (o, m) in enumerate(first):
            if m >= 2:
                keep = 1 + (h >> (k % 16)) % (m - 1) if m > 2 else 1
                first[k] = (o, keep)
                held.append((o, m - keep))
        second = held + second if (h >> 5) % 2 else second + held
    v1 = _entry_points(first)
    v2 = _entry_points(second)
    try:
        _add_batch(inst, first, v1[(h >> 8) % len(v1)])
        try:
            warm(inst)
        except Exception:
            pass
        _add_batch(inst, second, v2[(h >> 12) % len(v2)])
    except Exception:
        return None
    if set(inst.alternatives_name) != set(alts):
        return None         # e.g. an alternative nobody ranks: the API cannot build this instance
    # (a data_type other than `expected_type` is NOT a reason to fall back: the ballots determine the type, so a
    # mismatch is a bookkeeping defect of the entry point, and the property is checked on the object as built)
    want = [tuple(tuple(c) for c in o) for o, _ in profile]
    if [tuple(tuple(c) for c in o) for o in inst.orders] != want:
        # `held + second` can only reorder when an order of the second stage precedes ... never for
        # orders already stored; a different storage order means the case is built directly instead
        return None
    return inst


def strict_case_instance(case, warm, alts=None):
    """OrdinalInstance of a case {"orders": [flat strict order], "mults"?: [int], "grow"?: bool, "alts"}:
    built directly, or (grow) through the public append_* entry points in two stages with `warm(inst)` run
    in between (see grown_instance)."""
    mults = case.get("mults") or [1] * len(case["orders"])
    prof = [(tuple((a,) for a in o), k) for o, k in zip(case["orders"], mults)]
    alts = alts if alts is not None else case["alts"]
    inst = None
    if case.get("grow"):
        inst = grown_instance(prof, alts, "soc", warm)
    if inst is None:
        inst = make_ordinal(prof, alts=alts, data_type="soc")
    return inst


def strict_case_extras(rng, case):
    """adds multiplicities / the two-stage construction to a strict-profile case (in place)"""
    n = len(case["orders"])
    r = rng.random()
    if r < 0.3:
        case["mults"] = [rng.choice([1, 1, 2, 3, 5, 17, 100]) for _ in range(n)]
    if rng.random() < 0.25 and (n >= 2 or case.get("mults", [1])[0] >= 2 or rng.random() < 0.5):
        case["grow"] = True
        if n == 1 and case.get("mults", [1])[0] < 2:
            case["mults"] = [rng.choice([2, 3, 5])]
        if "mults" not in case and rng.random() < 0.5:
            case["mults"] = [rng.choice([1, 2, 3, 4]) for _ in range(n)]
    return case


def strict_case_shrinks(case):
    """shrink candidates that simplify the extras of a strict-profile case"""
    if case.get("grow"):
        yield {k: v for k, v in case.items() if k != "grow"}
    if case.get("mults"):
        yield {k: v for k, v in case.items() if k != "mults"}
