from harness import iolib
from harness.props.c01 import C01


class C08(C01):
    """CategoricalInstance.write -> get_parsed_instance -> write on generated well-formed categorical
    instances (empty / singleton / multi-alternative categories in every position); the file is also
    read by the independent Lean reader; bytes and attributes are compared with the Lean model."""

    id = "C08"
    design_ref = "§8 C08"
    level_text = ("Lean theorems about the model of CategoricalInstance.write/parse (pattern with '{}'): parse(write i) "
                  "= i for every ballot shape including empty categories in any position, independent-reader content, "
                  "and byte-identical second write; model bytes and parse results compared with the real code on "
                  "every run")
    theorems = [
        "PrefVerif.C08.scan_render",
        "PrefVerif.C08.roundtrip",
        "PrefVerif.C08.roundtrip_get",
        "PrefVerif.C08.norm_same",
        "PrefVerif.C08.rewrite",
        "PrefVerif.C08.independent_reader",
    ]
    rule = ("random well-formed categorical instances: 1-4 categories, ballots with empty / singleton / larger "
            "categories in first, middle and last position, unplaced alternatives, multiplicities 1-15, category and "
            "alternative names over the adversarial alphabet; non-trivial = at least 2 ballots")
    anchors = [("preflibtools.instances.preflibinstance.categorical", "CategoricalInstance.parse"),
               ("preflibtools.instances.preflibinstance.categorical", "CategoricalInstance.write"),
               ("preflibtools.instances.preflibinstance.instance", "PrefLibInstance.parse_metadata"),
               ("preflibtools.instances.preflibinstance.instance", "PrefLibInstance.write_metadata")]
    cls_gen = staticmethod(iolib.gen_categorical)


PROP = C08
