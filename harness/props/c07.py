from harness.core import Prop, Problem, call
from harness import gen


def _table(r, limit=400):
    """a returned table as plain ints; a table with far more rows than any generated instance has alternatives is
    kept only in part (its size is what gets reported), so that a table that grows from call to call cannot exhaust
    the memory of the check"""
    if r[0] != "ok":
        return r
    try:
        rows = list(r[1].items())
        if len(rows) > limit:
            rows = rows[:limit]
        return ("ok", {int(a): {int(b): int(v) for b, v in list(row.items())[:limit + 1]} for a, row in rows})
    except Exception:
        return ("ok", "malformed")


class C07(Prop):
    """pairwise_scores / copeland_scores / borda_scores / has_condorcet / order_to_pwg on ordinal
    instances of all four types, compared with the Lean model and judged against the voter-level
    counts computed by the Lean specification from the full profile."""

    id = "C07"
    level = "proof"
    design_ref = "§8 C07"
    level_text = ("Lean theorems: every entry of the model's pairwise / Copeland tables equals the voter-level count "
                  "(resp. net margin) over the full profile, every ordered pair is present, has_condorcet iff a "
                  "(weak) Condorcet winner exists, Borda convention, pwg lines; the model is run against the real "
                  "functions on every run and the real outputs are judged by the Lean spec evaluators")
    level_note = ("Lean kernel + standard axioms; hand-written model (dict = insertion-ordered association list); "
                  "correspondence is differential testing on generated instances")
    theorems = [
        "PrefVerif.C07.pairwise_keys",
        "PrefVerif.C07.pairwise_entry",
        "PrefVerif.C07.copeland_keys",
        "PrefVerif.C07.copeland_entry",
        "PrefVerif.C07.hasCondorcet_iff",
        "PrefVerif.C07.borda_entry",
        "PrefVerif.C07.pwg_lines",
        "PrefVerif.C07.pwg_count",
        "PrefVerif.C07.prefCount_perm",
    ]
    rule = ("random well-formed ordinal instances (soc/soi/toc/toi, 2-7 alternatives, ids sparse or 1..m, storage "
            "order of alternatives shuffled, multiplicities 1-4), with alternatives tied everywhere or never ranked; "
            "non-trivial = at least 2 distinct orders or a tie; every fifth case grows one instance in two batches through the "
            "append_* entry points, casting stored ballots again (several times per batch), and is judged against the "
            "harness's own record of the ballots cast")
    budget = {"quick": 300, "thorough": 40000}
    anchors = [("preflibtools.properties.pairwisecomparisons", n) for n in
               ("pairwise_scores", "copeland_scores", "has_condorcet", "borda_scores")] + \
              [("preflibtools.instances.convert", "order_to_pwg")]

    def generate(self, rng, n, deep=False):
        for i in range(n):
            r = rng.random()
            c = gen.ordinal_case(rng, m=rng.randint(2, 7 if deep else 6), n=rng.randint(1, 6))
            if r < 0.25:
                # an alternative that nobody ranks, or that is tied with another one everywhere
                extra = max(c["alts"]) + rng.randint(1, 5)
                c["alts"] = c["alts"] + [extra]
                if rng.random() < 0.5:
                    buddy = rng.choice(c["alts"][:-1])
                    for o, _ in c["profile"]:
                        for cl in o:
                            if buddy in cl:
                                cl.append(extra)
                orders = [tuple(tuple(cl) for cl in o) for o, _ in c["profile"]]
                c["type"] = gen.infer_type(orders, len(c["alts"]))
            yield {"kind": "tables", **c}
            if i % 5 == 0:
                # the same instance object queried, grown through the public API, and queried again
                c2 = gen.ordinal_case(rng, m=rng.randint(2, 6), n=rng.randint(1, 4))
                first = [o for o, _ in c["profile"]]
                more = [o for o, _ in c2["profile"]]
                if rng.random() < 0.6:
                    # ballots already cast are cast again, some of them several times in the same batch
                    for _ in range(rng.randint(1, 3)):
                        more = more + [rng.choice(first)] * rng.randint(1, 3)
                    if rng.random() < 0.5:
                        more = [o for o in more if o in first]      # nothing new: only repeats
                    rng.shuffle(more)
                if more:
                    yield {"kind": "grow", "first": first, "more": more}

        if deep or self.tier == "thorough":
            # scale (LAST, so that whatever it leaves behind cannot affect the other cases): ballots with more than a
            # thousand indifference classes
            m = 1100
            alts = list(range(1, m + 1))
            yield {"kind": "deep", "type": "soc", "alts": alts,
                   "profile": [[[[a] for a in alts], 2], [[[a] for a in reversed(alts)], 1]]}

    def run_impl(self, case):
        if case["kind"] == "grow":
            from preflibtools.instances import OrdinalInstance
            inst = OrdinalInstance()
            stages = []
            truth = {}          # what was cast so far, whatever the instance recorded
            for k, batch in enumerate((case["first"], case["more"])):
                grouped = {}
                for o in batch:
                    key = tuple(tuple(c) for c in o)
                    grouped[key] = grouped.get(key, 0) + 1
                    truth[key] = truth.get(key, 0) + 1
                grouped = list(grouped.items())
                vias = gen._entry_points(grouped)
                via = vias[(gen._stable(case) >> (4 * k)) % len(vias)]
                gen._add_batch(inst, grouped, via)
                alts = []
                for o in truth:
                    for c in o:
                        for a in c:
                            if a not in alts:
                                alts.append(a)
                snap = {"type": gen.infer_type(list(truth), len(alts)), "alts": alts,
                        "profile": [[[list(c) for c in o], int(m)] for o, m in truth.items()], "via": via}
                stages.append({"snap": snap, "obs": self._query(inst, snap)})
            self.count("grow")
            return {"stages": stages}
        inst = gen.inst_of(case)
        if case["kind"] == "deep":
            # 1 > 2 > ... > m twice and m > ... > 1 once: the full tables are not shipped to the model (m^2 entries);
            # every function must return, and sampled entries are compared with the closed form
            from preflibtools.properties import pairwisecomparisons as PC
            from preflibtools.instances.convert import order_to_pwg
            self.count("deep")
            m = len(case["alts"])
            out = {}
            pw = call(PC.pairwise_scores, inst, limit=120)
            cp = call(PC.copeland_scores, inst, limit=120)
            out["calls"] = {"pairwise_scores": pw[0] if pw[0] == "ok" else pw, "copeland_scores": cp[0] if cp[0] == "ok" else cp}
            for name, f in (("has_condorcet", PC.has_condorcet), ("borda_scores", PC.borda_scores), ("order_to_pwg", order_to_pwg)):
                r = call(f, inst, limit=120)
                out["calls"][name] = r[0] if r[0] == "ok" and name != "has_condorcet" else r
            pairs = [(1, 2), (2, 1), (1, m), (m, 1), (m // 2, m // 2 + 1), (m - 1, m), (7, 1000)]
            if pw[0] == "ok":
                out["pw"] = [[a, b, int(pw[1][a][b])] for a, b in pairs]
            if cp[0] == "ok":
                out["cp"] = [[a, b, int(cp[1][a][b])] for a, b in pairs]
            return out
        self.count("type:" + case["type"])
        return self._query(inst, case)

    def _query(self, inst, case):
        from preflibtools.properties import pairwisecomparisons as PC
        from preflibtools.instances.convert import order_to_pwg
        obs = {
            "pairwise": _table(call(PC.pairwise_scores, inst)),
            "copeland": _table(call(PC.copeland_scores, inst)),
            "condorcet": call(PC.has_condorcet, inst),
            "weak": call(PC.has_condorcet, inst, weak_condorcet=True),
        }
        b = call(PC.borda_scores, inst)
        obs["borda"] = ("ok", {int(k): int(v) for k, v in b[1].items()}) if b[0] == "ok" else b
        g = call(order_to_pwg, inst)
        obs["pwg"] = g if g[0] != "ok" else ("ok", self._parse_pwg(g[1], len(case["alts"])))
        return obs

    @staticmethod
    def _parse_pwg(s, m):
        try:
            lines = s.split("\n")
            if int(lines[0]) != m:
                return "bad-header"
            cnt = [int(x) for x in lines[m + 1].split(",")]
            body = [tuple(int(x) for x in l.split(",")) for l in lines[m + 2:] if l != ""]
            return {"count": cnt, "lines": sorted(body), "nlines": len(body)}
        except Exception:
            return "unparsable"

    def requests(self, case, obs):
        if case["kind"] == "deep":
            return []
        if case["kind"] == "grow":
            return [dict(gen.model_inst(st["snap"]), op="voting.tables") for st in obs["stages"]]
        return [dict(gen.model_inst(case), op="voting.tables")]

    def nontrivial_key(self, case, obs):
        if case["kind"] == "deep":
            return "deep"
        if case["kind"] == "grow":
            return repr(case)
        if len(case["profile"]) < 2 and case["type"] in ("soc", "soi"):
            return None
        return repr((case["alts"], case["profile"]))

    def judge(self, case, obs, replies):
        if case["kind"] == "deep":
            out = []
            for name, r in obs["calls"].items():
                if name == "has_condorcet":
                    if r != ("ok", True):
                        out.append(Problem("violation", case, f"has_condorcet on a profile of {len(case['alts'])} alternatives "
                                           f"whose first alternative wins every contest 2:1: {r}", "deep/has_condorcet"))
                elif r != "ok":
                    out.append(Problem("violation", case, f"{name} fails on ballots with {len(case['alts'])} indifference "
                                       f"classes: {r}", "deep/" + name))
            for a, b, v in obs.get("pw", []):
                if v != (2 if a < b else 1):
                    out.append(Problem("violation", case, f"pairwise_scores[{a}][{b}] = {v}, {2 if a < b else 1} voters rank "
                                       f"{a} above {b}", "deep/pairwise"))
                    break
            for a, b, v in obs.get("cp", []):
                if v != (1 if a < b else -1):
                    out.append(Problem("violation", case, f"copeland_scores[{a}][{b}] = {v}, the net margin is "
                                       f"{1 if a < b else -1}", "deep/copeland"))
                    break
            return out
        if case["kind"] == "grow":
            out = []
            for k, (st, rep) in enumerate(zip(obs["stages"], replies)):
                for p in self._judge_one(dict(st["snap"], kind="tables"), st["obs"], rep):
                    p.case = case
                    p.what = f"after growing the same instance (stage {k + 1}, through {st['snap'].get('via')}): " + p.what
                    out.append(p)
            return out
        return self._judge_one(case, obs, replies[0])

    def _judge_one(self, case, obs, rep):
        out = []
        alts = case["alts"]
        assert rep["wf"], "generator produced an ill-formed instance"
        spec = {a: dict(row) for a, row in rep["specPairwise"]}
        P = lambda what, site: out.append(Problem("violation", case, what, site))
        # pairwise
        r = obs["pairwise"]
        if r != ("ok", spec):
            P(f"pairwise_scores = {r}, voter-level counts are {spec}", "pairwise_scores")
        cspec = {a: {b: spec[a][b] - spec[b][a] for b in spec[a]} for a in spec}
        r = obs["copeland"]
        if r != ("ok", cspec):
            P(f"copeland_scores = {r}, net margins are {cspec}", "copeland_scores")
        if len(alts) >= 2:
            for key, sk in (("condorcet", "specCondorcet"), ("weak", "specWeakCondorcet")):
                if obs[key] != ("ok", rep[sk]):
                    P(f"has_condorcet({key}) = {obs[key]}, specification: {rep[sk]} (margins {cspec})",
                      "has_condorcet/" + key)
        # borda: documented for toc/soc
        if case["type"] in ("soc", "toc"):
            bs = dict(rep["specBorda"])
            r = obs["borda"]
            if r[0] != "ok" or any(r[1].get(a, 0) != bs[a] for a in alts) or any(k not in bs for k in r[1]):
                P(f"borda_scores = {r}, documented convention gives {bs}", "borda_scores")
        else:
            if obs["borda"] != ("exc", "refused"):
                P(f"borda_scores on {case['type']} must be refused, got {obs['borda']}", "borda_scores/guard")
        # pwg
        g = obs["pwg"]
        exp_lines = sorted((spec[a][b], a, b) for a in spec for b in spec[a])
        n = rep["numVoters"]
        exp = {"count": [n, sum(l[0] for l in exp_lines), len(exp_lines)], "lines": exp_lines, "nlines": len(exp_lines)}
        if g != ("ok", exp):
            P(f"order_to_pwg gives {g}, expected {exp}", "order_to_pwg")
        # model vs spec / impl (model-only observables)
        mod_pw = {a: dict(row) for a, row in rep["pairwise"]}
        if mod_pw != spec or (len(alts) >= 2 and (rep["condorcet"] != rep["specCondorcet"]
                                                   or rep["weakCondorcet"] != rep["specWeakCondorcet"])):
            out.append(Problem("disagreement", case, "Lean model differs from Lean spec", "model/spec"))
        return out

    def shrink_candidates(self, case):
        if case["kind"] == "deep":
            return
        if case["kind"] == "grow":
            for key in ("first", "more"):
                for i in range(len(case[key])):
                    if len(case[key]) > 1:
                        yield dict(case, **{key: case[key][:i] + case[key][i + 1:]})
            return
        yield from gen.shrink_profile_case(case)


PROP = C07
