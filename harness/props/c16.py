from harness.core import Prop, Problem, call
from harness import iolib, gen

NAME_POOL = ["A", "A", "A", "B", "A__1", "A__2", "A__1__1", "B__1", "", "x y"]


def render_class(c, cat=False):
    if len(c) == 0:
        return "{}"
    if len(c) == 1:
        return str(c[0])
    return "{" + ", ".join(map(str, c)) + "}"


class C16(Prop):
    """parse_str(..., autocorrect=True) on ordinal and categorical contents with repeated ballot lines,
    wrong header counts and colliding names, judged by the Lean normal-form specification (merged
    ballots, conserved voters, recomputed counts, distinct names, first occurrences kept) and compared
    with the Lean model of the autocorrect branches; clean contents with both flag values."""

    id = "C16"
    level = "proof"
    design_ref = "§8 C16"
    level_text = ("Lean theorems about the model of the autocorrect branches of both parsers: no ballot twice, "
                  "multiplicity = sum over its lines, counts recomputed, num_alternatives = number of names, names "
                  "pairwise distinct, and autocorrect is the identity on clean content. The first-occurrence clause is "
                  "proved only when no raw name equals an earlier generated name; the pinned code violates it otherwise "
                  "(known finding D18, with a Lean counterexample theorem). Model compared with the real parsers on "
                  "every run")
    level_note = "Lean kernel + standard axioms; hand-written model; correspondence is differential testing"
    theorems = [
        "PrefVerif.C16.ord_normal_form",
        "PrefVerif.C16.cat_normal_form",
        "PrefVerif.C16.ord_merge",
        "PrefVerif.C16.merged_spec",
        "PrefVerif.C16.freshSuffix_fresh",
        "PrefVerif.C16.names_distinct",
        "PrefVerif.C16.first_occurrence_partial",
        "PrefVerif.C16.first_occurrence_counterexample",
        "PrefVerif.C16.assignName_clean",
        "PrefVerif.C16.ballotLine_clean",
        "PrefVerif.C16.clean_identity_ord",
    ]
    rule = ("generated ordinal / categorical contents: 0-4 repeated ballot lines, header counts drawn independently "
            "of the body, names from a pool built to collide (A, A, A__1, A__2, A__1__1, ...), category names "
            "likewise; plus clean contents parsed with both flag values; the same content also through parse_file and "
            "get_parsed_instance with autocorrect=True, and parsed twice into one object (counts must be those of the "
            "ballots it holds); non-trivial = a repeated ballot or name")
    budget = {"quick": 400, "thorough": 40000}
    anchors = [("preflibtools.instances.preflibinstance.ordinal", "OrdinalInstance.parse"),
               ("preflibtools.instances.preflibinstance.categorical", "CategoricalInstance.parse"),
               ("preflibtools.instances.preflibinstance.categorical", "CategoricalInstance.recompute_cardinality_param"),
               ("preflibtools.instances.preflibinstance.instance", "PrefLibInstance.parse_metadata")]

    def corpus(self):
        return [{"kind": "dirty", "cls": "ord", "ext": "soc", "names": [[1, "A"], [2, "A"], [3, "A__1"]],
                 "cat_names": [], "counts": [3, 1, 1, 1], "lines": [[1, [[1], [2], [3]]]]}] + super().corpus()

    def generate(self, rng, n, deep=False):
        for k in range(n):
            cls = "ord" if k % 2 == 0 else "cat"
            m = rng.randint(1, 5)
            scale = rng.random() < 0.04
            if scale:
                # scale: dozens / more than a hundred names colliding on one base name, two-digit category counts,
                # multiplicities beyond 2**53
                m = rng.choice([12, 25, 101, 130])
            alts = gen.alt_ids(rng, m, "1m")
            clean = rng.random() < 0.25
            if clean:
                names = [[a, "n" + str(a)] for a in alts]
            elif scale:
                base = rng.choice(["A", "cand", "X__1"])
                names = [[a, base if rng.random() < 0.9 else rng.choice(NAME_POOL)] for a in alts]
            else:
                names = [[a, rng.choice(NAME_POOL)] for a in alts]
            lines, pool = [], []
            ncat = rng.randint(1, 3) if not scale else rng.choice([3, 12, 15])
            for _ in range(rng.randint(1, 6)):
                if pool and not clean and rng.random() < 0.5:
                    b = rng.choice(pool)
                else:
                    if cls == "ord":
                        b = [list(c) for c in gen.weak_order(rng, alts, complete=rng.random() < 0.5)]
                    else:
                        chosen = gen.perm(rng, alts)[: rng.randint(0, m)]
                        cuts = sorted(rng.randint(0, len(chosen)) for _ in range(ncat - 1))
                        b = [chosen[x:y] for x, y in zip([0] + cuts, cuts + [len(chosen)])]
                    if clean and b in pool:
                        continue
                    pool.append(b)
                mlt = rng.randint(1, 9) if rng.random() < 0.9 or clean else 0
                if scale and rng.random() < 0.5:
                    mlt = rng.choice([1000, 2 ** 53 + 1, 10 ** 18 + 3])
                lines.append([mlt, b])
            true_counts = [m, sum(x for x, _ in lines), len(lines), ncat]
            counts = true_counts if clean else [rng.randint(0, 9) for _ in range(4)]
            cat_names = []
            if cls == "cat":
                cat_names = [[i + 1, ("c" + str(i)) if clean else
                              (("Level" if rng.random() < 0.9 else rng.choice(NAME_POOL)) if scale else rng.choice(NAME_POOL))]
                             for i in range(ncat)]
            ext = "cat" if cls == "cat" else gen.infer_type([tuple(map(tuple, b)) for _, b in lines], m)
            yield {"kind": "clean" if clean else "dirty", "cls": cls, "ext": ext, "names": names,
                   "cat_names": cat_names, "counts": counts, "lines": lines,
                   "spell": 0 if clean or rng.random() < 0.5 else rng.randint(1, 10 ** 6)}

    def _content(self, case):
        c = case["counts"]
        t = "# FILE NAME: t." + case["ext"] + "\n# TITLE: t\n# DATA TYPE: " + case["ext"] + "\n"
        t += f"# NUMBER ALTERNATIVES: {c[0]}\n# NUMBER VOTERS: {c[1]}\n"
        if case["cls"] == "ord":
            t += f"# NUMBER UNIQUE ORDERS: {c[2]}\n"
        else:
            t += f"# NUMBER UNIQUE PREFERENCES: {c[2]}\n# NUMBER CATEGORIES: {c[3]}\n"
            for k, nm in case["cat_names"]:
                t += f"# CATEGORY NAME {k}: {nm}\n"
        for k, nm in case["names"]:
            t += f"# ALTERNATIVE NAME {k}: {nm}\n"
        import random as _r
        sty = _r.Random(repr(case["lines"]) + str(case.get("spell", 0)))
        for mlt, b in case["lines"]:
            parts = []
            for cl in b:
                txt = render_class(cl)
                if case.get("spell") and len(cl) == 1 and sty.random() < 0.4:
                    txt = "{" + txt + "}"           # a singleton written as a brace group
                parts.append(txt)
            sep = ", " if not case.get("spell") else sty.choice([", ", ",", " ,  "])
            line = f"{mlt}: " + sep.join(parts)
            if case.get("spell") and case["cls"] == "ord" and sty.random() < 0.3:
                line += ","                           # trailing comma
            t += line + "\n"
        return t

    def run_impl(self, case):
        from preflibtools.instances import sanity
        text = self._content(case)
        self.count(case["kind"] + "/" + case["cls"])
        obs = {"content": text}
        holder = {}
        for flag in (True, False):
            r, _ = iolib.parse_impl("str", case["cls"], content=text, data_type=case["ext"], file_name="t." + case["ext"],
                                    autocorrect=flag)
            obs["auto" if flag else "plain"] = r
        # the same content through the file-based entry points
        path = iolib.put("c16_" + str(abs(hash(text)) % 10 ** 8) + "." + case["ext"], text)
        obs["auto_file"] = iolib.parse_impl("file", case["cls"], path=path, autocorrect=True)[0]
        obs["auto_get"] = iolib.parse_impl("get", None, path=path, autocorrect=True)[0]
        # ... and parsed a second time into the SAME object: the counts are those of the ballots it now holds
        from preflibtools.instances import OrdinalInstance, CategoricalInstance
        i2 = (OrdinalInstance if case["cls"] == "ord" else CategoricalInstance)()

        def twice():
            import warnings
            with warnings.catch_warnings():
                warnings.simplefilter("ignore")
                i2.parse_str(text, case["ext"], file_name="t." + case["ext"], autocorrect=True)
                i2.parse_str(text, case["ext"], file_name="t." + case["ext"], autocorrect=True)
            ballots = i2.orders if case["cls"] == "ord" else i2.preferences
            return {"num_voters": i2.num_voters, "sum_mult": sum(i2.multiplicity.values()),
                    "num_unique": i2.num_unique_orders if case["cls"] == "ord" else i2.num_unique_preferences,
                    "len_mult": len(i2.multiplicity), "len_ballots": len(ballots), "distinct": len(set(ballots))}
        obs["twice"] = call(twice)
        if obs["auto"][0] == "ok":
            inst = iolib.build(obs["auto"][1])
            errs = []
            for f in ([sanity.orders] if case["cls"] == "ord" else [sanity.categories]) + [sanity.metadata]:
                r = call(f, inst)
                errs += [str(e) for e in r[1]] if r[0] == "ok" else ["sanity raised " + str(r[1])]
            obs["sanity"] = errs
        return obs

    def requests(self, case, obs):
        text = obs["content"]
        reqs = [{"op": "io.parse", "entry": "str", "cls": case["cls"], "content": text, "data_type": case["ext"],
                 "file_name": "t." + case["ext"], "autocorrect": flag} for flag in (True, False)]
        fin = [n for _, n in obs["auto"][1]["header"]["alternatives_name"]] if obs["auto"][0] == "ok" else []
        reqs.append({"op": "c16.spec", "raw": [n for _, n in case["names"]], "final": fin, "lines": case["lines"]})
        if case["cls"] == "cat":
            finc = [n for _, n in obs["auto"][1]["categories_name"]] if obs["auto"][0] == "ok" else []
            reqs.append({"op": "c16.spec", "raw": [n for _, n in case["cat_names"]], "final": finc, "lines": []})
        return reqs

    def nontrivial_key(self, case, obs):
        bs = [repr(b) for _, b in case["lines"]]
        ns = [n for _, n in case["names"]]
        if len(set(bs)) == len(bs) and len(set(ns)) == len(ns):
            return None
        return repr(case)

    def finding_predicates(self):
        def d18(p):
            return p.site in ("names/first-occurrence", "cat_names/first-occurrence") and p.detail.get("clashGenerated") is True
        return {"C16/raw-name-equals-earlier-generated-name": d18}

    def judge(self, case, obs, replies):
        out = []
        P = lambda what, site, **det: out.append(Problem("violation", case, what, site, det))
        D = lambda what, site: out.append(Problem("disagreement", case, what, site))
        auto, plain = obs["auto"], obs["plain"]
        spec = replies[2]
        if auto[0] != "ok":
            P(f"parsing with autocorrect=True raised {auto[1]}", "auto/call")
            return out
        d = auto[1]
        key = "orders" if case["cls"] == "ord" else "preferences"
        ballots = [repr(b) for b in d[key]]
        mult = {repr(b): m for b, m in d["multiplicity"]}
        exp = {repr(b): m for b, m in spec["merged"]}
        if len(set(ballots)) != len(ballots):
            P(f"a ballot is listed twice after autocorrect: {d[key]}", "ballots/duplicate")
        if d.get("preferences_same") is False:
            P("instance.preferences (the documented alias of the ballot list) still lists repeated ballots / differs "
              "from instance.orders after autocorrect", "ballots/preferences-alias")
        if mult != exp or set(ballots) != set(exp):
            P(f"multiplicities {d['multiplicity']} are not the sums over the ballot lines {spec['merged']}", "ballots/merge")
        h = d["header"]
        if h["num_voters"] != spec["voters"]:
            P(f"num_voters {h['num_voters']} != {spec['voters']} voters in the ballot lines", "count/voters")
        if d["num_unique"] != len(exp):
            P(f"unique-ballot count {d['num_unique']} != {len(exp)}", "count/unique")
        if h["num_alternatives"] != len(h["alternatives_name"]) or len(h["alternatives_name"]) != len(case["names"]):
            P(f"num_alternatives {h['num_alternatives']} != number of named alternatives {len(case['names'])}", "count/alternatives")
        for tag, sp in (("names", spec),) + ((("cat_names", replies[3]),) if case["cls"] == "cat" else ()):
            if not sp["distinct"]:
                P(f"{tag} are not pairwise distinct after autocorrect", tag + "/distinct")
            if not sp["firstKept"]:
                P(f"{tag}: a first occurrence of a name was changed: raw "
                  f"{[n for _, n in (case['names'] if tag == 'names' else case['cat_names'])]} -> "
                  f"{[n for _, n in (h['alternatives_name'] if tag == 'names' else d['categories_name'])]}",
                  tag + "/first-occurrence", clashGenerated=sp["clashGenerated"])
        # only the complaints the property speaks about: voter / unique-ballot / alternative counts,
        # duplicate ballots, duplicate names (the category count is not claimed to be recomputed)
        covered = ("len(", "Number of voters", "Number of unique", "Some orders appear", "Some preferences appear",
                   "Number of alternatives", "Some alternatives have the same name", "sanity raised")
        bad = [e for e in obs.get("sanity", []) if e.startswith(covered) or " is the same than " in e]
        if bad:
            P(f"sanity checker complains after autocorrect: {bad}", "sanity")
        for tag in ("auto_file", "auto_get"):
            r = obs.get(tag)
            if r is None:
                continue
            if r[0] != "ok":
                P(f"{tag[5:]}-based parsing with autocorrect=True raised {r[1]}", "entry/" + tag)
            else:
                df = iolib.diff(iolib.canon(d), iolib.canon(r[1]), skip=("file_name",))
                if df:
                    P(f"autocorrect=True through {'parse_file' if tag == 'auto_file' else 'get_parsed_instance'} differs "
                      f"from parse_str on {df}", "entry/" + tag)
        tw = obs.get("twice")
        if tw is not None and tw[0] == "ok":
            t = tw[1]
            if t["num_voters"] != t["sum_mult"] or not (t["num_unique"] == t["len_mult"] == t["len_ballots"] == t["distinct"]):
                P(f"after parsing the content twice into one object with autocorrect=True the counts are not those of "
                  f"its ballots: {t}", "twice/counts")
        if case["kind"] == "clean":
            if plain[0] != "ok" or iolib.diff(iolib.canon(plain[1]), iolib.canon(d)):
                P("autocorrect=True and autocorrect=False differ on clean content", "clean")
        # model
        for rep, r, tag in ((replies[0], auto, "auto"), (replies[1], plain, "plain")):
            if ("ok" in rep) != (r[0] == "ok"):
                D(f"model {tag}: {rep if 'ok' not in rep else 'ok'} vs implementation {r[0]}", "model/" + tag)
            elif "ok" in rep and iolib.diff(iolib.canon(rep["ok"]), iolib.canon(r[1])):
                D(f"model and implementation differ ({tag}) on {iolib.diff(iolib.canon(rep['ok']), iolib.canon(r[1]))}",
                  "model/" + tag)
        return out

    def shrink_candidates(self, case):
        for i in range(len(case["lines"])):
            if len(case["lines"]) > 1:
                yield dict(case, lines=case["lines"][:i] + case["lines"][i + 1:])
        for i in range(len(case["names"])):
            if len(case["names"]) > 1:
                gone = case["names"][i][0]
                ls = [[m, [[a for a in c if a != gone] for c in b]] for m, b in case["lines"]]
                if case["cls"] == "ord":
                    ls = [[m, [c for c in b if c]] for m, b in ls]
                    if any(not b for _, b in ls):
                        continue
                yield dict(case, names=case["names"][:i] + case["names"][i + 1:], lines=ls)


PROP = C16
