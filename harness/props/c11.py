import itertools

from harness.core import Prop, Problem, call
from harness import gen


def sp_votes(rng, axis, n, weak=False):
    """votes single-peaked on `axis` (outside-in construction); weak: merge adjacent ranks into ties"""
    votes = []
    m = len(axis)
    for _ in range(n):
        l = r = rng.randrange(m)
        order = [axis[l]]
        while len(order) < m:
            if l == 0:
                r += 1
                order.append(axis[r])
            elif r == m - 1:
                l -= 1
                order.append(axis[l])
            elif rng.random() < 0.5:
                l -= 1
                order.append(axis[l])
            else:
                r += 1
                order.append(axis[r])
        if not weak:
            votes.append([[a] for a in order])
        else:
            classes, cur = [], [order[0]]
            for a in order[1:]:
                if rng.random() < 0.35:
                    cur.append(a)
                else:
                    classes.append(cur)
                    cur = [a]
            classes.append(cur)
            votes.append(classes)
    return votes


class C11(Prop):
    """is_single_peaked_axis (every / random axes), is_single_peaked_pq_tree and is_single_peaked_ILP on
    soc / toc instances incl. several alternatives tied at the top and complete indifference: verdicts vs
    the Lean definition ("every prefix union of classes is contiguous") and brute force over all axes, ILP
    axis validated by the Lean witness checker, agreement with is_single_peaked on strict profiles, type
    guards; Lean model of the axis scan and of the consecutive-ones matrix."""

    id = "C11"
    level = "proof"
    design_ref = "§8 C11"
    level_text = ("Lean theorems: the model of the (repaired) position scan of is_single_peaked_axis accepts an axis "
                  "iff for every voter and k the union of the k best classes is contiguous on it; the rows of the model "
                  "of sp_cons_ones_matrix are consecutive under a column order iff the profile is single-peaked on the "
                  "corresponding axis; witness checker and brute-force decider are correct; type guards. The model of "
                  "the PQ-tree (C05PQ) is proved to decide the consecutive-ones property, so the model of "
                  "is_single_peaked_pq_tree is exact; it is compared with the real function on every run and is the "
                  "oracle above 7 alternatives. The CBC solver is outside Lean: the ILP handed to it is compared "
                  "constraint by constraint with the Lean model (proved feasible iff single-peaked), its verdict with "
                  "the verified deciders and its axis is re-checked by the verified checker on every run")
    level_note = ("Lean kernel + standard axioms; CBC/python-mip is a contract exercised at run time; hand-written "
                  "models of the axis test, the matrix construction, the PQ-tree and the ILP")
    theorems = [
        "PrefVerif.C11.orderOk_iff",
        "PrefVerif.C11.isSinglePeakedAxis_iff",
        "PrefVerif.C11.isSinglePeakedAxis_guard",
        "PrefVerif.C11.spOnAxis_iff",
        "PrefVerif.C11.spWitness_iff",
        "PrefVerif.C11.bruteSP_iff",
        "PrefVerif.C11.consOnes_iff",
        "PrefVerif.C11.consOnes_C1P_iff_SP",
        "PrefVerif.C05PQ.isC1P_iff",
        "PrefVerif.ILPP.sp_axis_feasible",
        "PrefVerif.ILPP.sp_feasible_axis",
        "PrefVerif.ILPP.sp_feasible_iff",
    ]
    rule = ("soc / toc instances with 1-6 alternatives (ties at the top, complete indifference, planted single-peaked "
            "and perturbed profiles); all axes for m <= 4, 6 random axes otherwise; ILP on ~1/6 of the cases; all "
            "four functions on soi/toi for the guards; profiles with 8-14 alternatives decided by the verified PQ-tree model; "
            "30 % with multiplicities, 25 % of the non-ILP cases grown through the append_* entry points; non-trivial = >= 2 "
            "orders and >= 3 alternatives")
    budget = {"quick": 600, "thorough": 6000}
    anchors = [("preflibtools.properties.subdomains.ordinal.singlepeaked.singlepeakedness", n) for n in
               ("is_single_peaked_axis", "sp_cons_ones_matrix", "is_single_peaked_pq_tree", "is_single_peaked_ILP",
                "sp_ILP_trans_cstr", "sp_ILP_total_cstr", "sp_ILP_pos_cstr", "sp_ILP_cons_ones_cstr")] + \
              [("preflibtools.properties.subdomains.consecutive_ones", "isC1P"),
               ("preflibtools.properties.subdomains.consecutive_ones", "reorder_sets")]

    def corpus(self):
        return [
            {"kind": "sp", "type": "toc", "alts": [1, 2, 3], "orders": [[[1, 3], [2]]], "ilp": True},
            {"kind": "sp", "type": "toc", "alts": [1, 2, 3], "orders": [[[2, 1, 3]]], "ilp": True},
        ] + super().corpus()

    def generate(self, rng, n, deep=False):
        for i in range(n):
            r = rng.random()
            m = rng.choice([1, 2, 3, 3, 4, 4, 5, 6, 8, 10, 14])      # above 7 the verified PQ-tree model is the oracle
            alts = gen.alt_ids(rng, m)
            store = gen.perm(rng, alts) if rng.random() < 0.3 else alts
            nn = rng.randint(1, 5)
            weak = rng.random() < 0.55
            if r < 0.1:
                kind = rng.choice(["soi", "toi"])
                c = gen.ordinal_case(rng, m=max(m, 2), n=nn, kind=kind)
                if c["type"] in ("soi", "toi"):
                    yield {"kind": "guard", "type": c["type"], "alts": c["alts"], "orders": [o for o, _ in c["profile"]]}
                continue
            if r < 0.55:
                axis = gen.perm(rng, alts)
                orders = sp_votes(rng, axis, nn, weak)
                if rng.random() < 0.4 and m >= 3:
                    k = rng.randrange(len(orders))
                    flat = [a for c in orders[k] for a in c]
                    a, b = rng.sample(range(m), 2)
                    flat[a], flat[b] = flat[b], flat[a]
                    it = iter(flat)
                    orders[k] = [[next(it) for _ in c] for c in orders[k]]
            else:
                orders = []
                for _ in range(nn):
                    if weak:
                        orders.append([list(c) for c in gen.weak_order(rng, alts, complete=True, tie_p=rng.choice([0.3, 0.6, 0.9]))])
                    else:
                        orders.append([[a] for a in gen.perm(rng, alts)])
            seen, uniq = set(), []
            for o in orders:
                if repr(o) not in seen:
                    seen.add(repr(o))
                    uniq.append(o)
            t = gen.infer_type([tuple(map(tuple, o)) for o in uniq], m)
            c = {"kind": "sp", "type": t, "alts": store, "orders": uniq, "ilp": i % 6 == 0 and m <= 8}
            if rng.random() < 0.3:
                c["mults"] = [rng.choice([1, 2, 3, 5, 17, 100]) for _ in uniq]
            if not c["ilp"] and len(uniq) >= 2 and rng.random() < 0.25:
                c["grow"] = True        # built through the append_* entry points, queried once half-way
            yield c

    def _axes(self, case):
        import random
        alts = case["alts"]
        if len(alts) <= 4:
            return [list(p) for p in itertools.permutations(alts)]
        rng = random.Random(repr(case["orders"]))
        return [gen.perm(rng, alts) for _ in range(6)]

    def run_impl(self, case):
        from preflibtools.properties.subdomains.ordinal.singlepeaked import singlepeakedness as S
        ms = case.get("mults") or [1] * len(case["orders"])
        prof = [(tuple(map(tuple, o)), k) for o, k in zip(case["orders"], ms)]

        def mk():
            inst = None
            if case.get("grow"):
                def warm(i):
                    S.is_single_peaked_pq_tree(i)
                    S.is_single_peaked_axis(i, list(i.alternatives_name))
                inst = gen.grown_instance(prof, case["alts"], case["type"], warm)
            return inst or gen.make_ordinal(prof, alts=case["alts"], data_type=case["type"])
        self.count("type:" + case["type"])
        obs = {}
        if case["kind"] == "guard":
            axis = list(case["alts"])
            obs["axis"] = call(S.is_single_peaked_axis, mk(), axis)
            obs["pq"] = call(S.is_single_peaked_pq_tree, mk())
            obs["ilp"] = call(S.is_single_peaked_ILP, mk())
            obs["elo"] = call(S.is_single_peaked, mk())
            return {k: (v if v[0] == "exc" else ("ok", "returned")) for k, v in obs.items()}
        axes = self._axes(case)
        obs["axes"] = axes
        obs["axis"] = [self._b(call(S.is_single_peaked_axis, mk(), ax)) for ax in axes]
        obs["pq"] = self._b(call(S.is_single_peaked_pq_tree, mk()))
        if case["type"] == "soc":
            r = call(S.is_single_peaked, mk())
            obs["elo"] = r if r[0] != "ok" else ("ok", bool(r[1][0]))
        if case.get("ilp"):
            from harness import ilpcap
            store = []
            with ilpcap.capture(store):
                r = call(S.is_single_peaked_ILP, mk(), limit=60)
            obs["ilp_capture"] = store[0] if len(store) == 1 else None
            if r[0] == "ok":
                v, status, ax = r[1]
                r = ("ok", [bool(v), str(status), [int(a) for a in ax] if ax is not None else None])
            obs["ilp"] = r
        return obs

    @staticmethod
    def _b(r):
        return r if r[0] != "ok" else ("ok", bool(r[1]))

    def requests(self, case, obs):
        if case["kind"] == "guard":
            return []
        w = []
        if "ilp" in obs and obs["ilp"][0] == "ok" and obs["ilp"][1][2] is not None:
            w = [obs["ilp"][1][2]]
        reqs = [{"op": "dom.sp", "type": case["type"], "alts": case["alts"], "orders": case["orders"],
                 "axes": obs["axes"], "witnesses": w, "brute": len(case["alts"]) <= 7}]
        cap = obs.get("ilp_capture")
        if cap is not None:
            d = {"op": "ilp.model", "which": "sp", "alts": case["alts"], "orders": case["orders"]}
            if cap["solution"] is not None:
                d["solution"] = [[k, [round(v), 1]] for k, v in cap["solution"].items()]
            reqs.append(d)
        # the verified PQ-tree model on the consecutive-ones matrix of the profile (always the LAST request)
        rows = self._rows(case)
        m = len(case["alts"])
        reqs.append({"op": "pq.solve", "ncols": m, "matrix": [[1 if c in r else 0 for c in range(m)] for r in rows]})
        return reqs

    @staticmethod
    def _rows(case):
        """sp_cons_ones_matrix as lists of column indices (one row per voter and prefix of classes)"""
        idx = {a: k for k, a in enumerate(case["alts"])}
        return [[idx[a] for c in o[:lvl + 1] for a in c] for o in case["orders"] for lvl in range(len(o))]

    def nontrivial_key(self, case, obs):
        if case["kind"] == "guard" or len(case["orders"]) < 2 or len(case["alts"]) < 3:
            return None
        return repr((case["alts"], case["orders"]))

    def judge(self, case, obs, replies):
        out = []
        P = lambda what, site: out.append(Problem("violation", case, what, site))
        if case["kind"] == "guard":
            for k in ("axis", "pq", "ilp", "elo"):
                if obs[k] != ("exc", "TypeError"):
                    P(f"{k} on a {case['type']} instance must raise TypeError, got {obs[k]}", "guard/" + k)
            return out
        rep = replies[0]
        for ax, r, spec, mod in zip(obs["axes"], obs["axis"], rep["axisSpec"], rep["axisModel"]):
            if r != ("ok", spec):
                P(f"is_single_peaked_axis(axis={ax}) = {r}; by definition (every prefix union of classes contiguous) "
                  f"the answer is {spec}", "axis")
                break
            if mod != spec:
                out.append(Problem("disagreement", case, f"model axis test {mod} vs spec {spec} on {ax}", "model/axis"))
                break
        truth = rep["bruteSP"]
        pq = replies[-1]
        if rep["rows"] != self._rows(case):
            out.append(Problem("disagreement", case, "harness and model build different consecutive-ones rows", "model/rows"))
        elif truth is None:
            # no brute force at this size: the PQ-tree model decides (C05PQ.isC1P_iff with C11.consOnes_C1P_iff_SP)
            truth = pq["isC1P"]
            self.count("truth-from-verified-pq-model")
        elif pq["isC1P"] != truth:
            out.append(Problem("disagreement", case, f"PQ-tree model says {pq['isC1P']}, brute force says {truth}",
                               "model/pq-spec"))
        if obs["pq"][0] == "ok" and obs["pq"][1] != pq["isC1P"]:
            out.append(Problem("disagreement", case, f"PQ-tree model says {pq['isC1P']}, is_single_peaked_pq_tree "
                               f"says {obs['pq'][1]}", "model/pq-verdict"))
        self.count("truth:" + str(truth))
        if obs["pq"][0] != "ok":
            P(f"is_single_peaked_pq_tree raised {obs['pq'][1]}", "pq/call")
        elif truth is not None and obs["pq"][1] != truth:
            P(f"is_single_peaked_pq_tree answers {obs['pq'][1]}; some axis passes the test: {truth}", "pq/verdict")
        if rep["bruteC1P"] is not None and truth is not None and rep["bruteC1P"] != truth:
            out.append(Problem("disagreement", case, "model matrix C1P differs from SP", "model/matrix"))
        if "elo" in obs:
            e = obs["elo"]
            if e[0] == "ok" and obs["pq"][0] == "ok" and e[1] != obs["pq"][1]:
                P(f"is_single_peaked says {e[1]} but is_single_peaked_pq_tree says {obs['pq'][1]} on a strict profile",
                  "agree/elo-pq")
        if "ilp" in obs:
            r = obs["ilp"]
            if r[0] != "ok":
                P(f"is_single_peaked_ILP raised {r[1]}", "ilp/call")
            else:
                v, status, ax = r[1]
                if truth is not None and v != truth:
                    P(f"is_single_peaked_ILP answers {v} ({status}); some axis passes the test: {truth}", "ilp/verdict")
                if v and rep["witnessOk"] != [True]:
                    P(f"ILP axis {ax} is not a permutation of the alternatives passing the test", "ilp/axis")
                if "elo" in obs and obs["elo"][0] == "ok" and obs["elo"][1] != v:
                    P("is_single_peaked and is_single_peaked_ILP disagree on a strict profile", "agree/elo-ilp")
            cap = obs.get("ilp_capture")
            if cap is not None and len(replies) > 1:
                from harness import ilpcap
                from collections import Counter
                # compared as SETS: a constraint stated twice changes nothing (multiplicities are drift)
                mine = set(ilpcap.model_constraints(replies[1]))
                theirs = set(cap["constraints"])
                if mine != theirs:
                    diff = list(theirs - mine)[:2] + list(mine - theirs)[:2]
                    out.append(Problem("disagreement", case, "the ILP handed to the solver differs from the model's "
                                       f"constraint system ({len(theirs - mine)} extra, "
                                       f"{len(mine - theirs)} missing), e.g. {diff}", "model/ilp-constraints"))
                elif replies[1]["solutionFeasible"] is False:
                    out.append(Problem("disagreement", case, "the solver's (rounded) solution violates the model's "
                                       "constraints", "model/ilp-solution"))
        return out

    def shrink_candidates(self, case):
        os_ = case["orders"]
        yield from gen.strict_case_shrinks(case)
        ms = case.get("mults")
        for i in range(len(os_)):
            if len(os_) > 1:
                c2 = dict(case, orders=os_[:i] + os_[i + 1:])
                if ms:
                    c2["mults"] = ms[:i] + ms[i + 1:]
                yield c2
        if len(case["alts"]) > 2:
            for x in case["alts"]:
                o2 = [[[a for a in c if a != x] for c in o] for o in os_]
                o2 = [[c for c in o if c] for o in o2]
                if len({repr(o) for o in o2}) == len(o2):
                    t = gen.infer_type([tuple(map(tuple, o)) for o in o2], len(case["alts"]) - 1)
                    yield dict(case, alts=[a for a in case["alts"] if a != x], orders=o2, type=t)


PROP = C11
