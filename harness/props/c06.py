from harness.core import Prop, Problem, call
from harness import gen

RULES = {
    "plurality": ("plurality_winner", ["soc", "toc", "soi", "toi"]),
    "veto": ("veto_winner", ["soc", "toc"]),
    "k_approval": ("k_approval_winner", ["soc", "soi"]),
    "borda": ("borda_winner", ["soc", "toc"]),
    "copeland": ("copeland_winner", ["soc"]),
    "approval": ("approval_winner", None),
    "sav": ("satisfaction_approval_winner", None),
}


def run_rule(case, rule, k=None, data_type=None, grow=False):
    from preflibtools.aggregation import singlewinner as SW
    f = getattr(SW, RULES[rule][0] if rule in RULES else rule)
    inst = None
    if grow and data_type is None:
        # one object: queried after the first ballots, grown through the public API, queried again (judged)
        warm = (lambda i: f(i, k)) if rule == "k_approval" else f
        inst = gen.grown_instance(gen.from_json_profile(case["profile"]), case["alts"], case["type"], warm)
    if inst is None:
        inst = gen.inst_of(case, data_type=data_type)
    r = call(f, inst, k, limit=5.0) if rule == "k_approval" else call(f, inst, limit=5.0)
    if r[0] == "ok":
        try:
            r = ("ok", sorted(int(a) for a in r[1]))
        except Exception:
            r = ("ok", "malformed")
    return r


def approval_case(rng, m, n, big=False):
    """approval profile: every order is one class (incomplete) or (approved, rest) complete"""
    alts = gen.alt_ids(rng, m)
    two = rng.random() < 0.5
    prof, seen = [], set()
    for _ in range(n):
        k = rng.randint(1, m - 1 if two and m > 1 else m)
        app = sorted(rng.sample(alts, k))
        rest = [a for a in alts if a not in app]
        o = [app, rest] if two and rest else [app]
        if repr(o) in seen:
            continue
        seen.add(repr(o))
        prof.append([o, rng.randint(1, 50 if big else 4)])
    orders = [tuple(tuple(c) for c in o) for o, _ in prof]
    return {"type": gen.infer_type(orders, m), "alts": alts, "profile": prof}


class C06(Prop):
    """the seven scoring rules: winners of the real functions vs the Lean model and vs the argmax
    of the voter-by-voter textbook score computed by the Lean spec; type guards on every
    (rule, data type) pair; invariance under storage order and uniform scaling of multiplicities."""

    id = "C06"
    level = "proof"
    design_ref = "§8 C06"
    level_text = ("Lean theorems: for each rule the model's winner list is exactly the set of maximisers (veto: "
                  "minimisers) of the textbook score recomputed voter by voter from the full profile, is invariant "
                  "under regrouping of the same ballots, and instances outside the documented domain are refused; "
                  "the model is compared with the real functions on every run")
    level_note = ("Lean kernel + standard axioms; hand-written model; satisfaction approval over exact rationals "
                  "(the repaired code uses fractions.Fraction); correspondence is differential testing")
    theorems = [
        "PrefVerif.C06.plurality_correct",
        "PrefVerif.C06.veto_correct",
        "PrefVerif.C06.kApproval_correct",
        "PrefVerif.C06.borda_correct",
        "PrefVerif.C06.copeland_correct",
        "PrefVerif.C06.approval_correct",
        "PrefVerif.C06.sav_correct",
        "PrefVerif.C06.plurality_guard",
        "PrefVerif.C06.veto_guard",
        "PrefVerif.C06.kApproval_guard",
        "PrefVerif.C06.borda_guard",
        "PrefVerif.C06.copeland_guard",
        "PrefVerif.C06.approval_guard",
        "PrefVerif.C06.scores_perm",
        "PrefVerif.C06.plurality_regroup",
    ]
    rule = ("random well-formed ordinal instances of the four types and approval profiles, multiplicities up to 50, "
            "planted Copeland wins-vs-margins separations and exact SAV ties with class sizes 3/7/10, every k in "
            "1..m+2, every rule x data type for the guards; non-trivial = in-domain call with >= 2 distinct orders")
    budget = {"quick": 400, "thorough": 40000}
    anchors = [("preflibtools.aggregation.singlewinner", RULES[r][0]) for r in RULES] + \
              [("preflibtools.properties.pairwisecomparisons", "borda_scores"),
               ("preflibtools.properties.pairwisecomparisons", "copeland_scores"),
               ("preflibtools.properties.decorators", "requires_preference_type"),
               ("preflibtools.properties.decorators", "requires_approval"),
               ("preflibtools.properties.basic", "is_approval")]

    def corpus(self):
        return [
            # Copeland by wins vs summed margins (D4)
            {"kind": "rule", "rule": "copeland", "type": "soc", "alts": [1, 2, 3, 4, 5],
             "profile": [[[[1], [5], [2], [4], [3]], 2], [[[5], [2], [3], [1], [4]], 1]]},
            # exact satisfaction-approval tie lost in floating point (D5): 0.1 + 0.2 vs 0.3
            {"kind": "rule", "rule": "sav", "type": "toi", "alts": list(range(1, 31)),
             "profile": [[[list(range(1, 11))], 1], [[[1] + list(range(11, 20))], 2], [[list(range(20, 30))], 3]]},
        ] + super().corpus()

    def generate(self, rng, n, deep=False):
        rules = list(RULES)
        for i in range(n):
            r = rng.random()
            rule = rules[i % len(rules)]
            if rng.random() < (0.25 if rule == "copeland" else 0.06):
                c = self._scale_case(rng, rule)
            elif rng.random() < 0.04:
                # complete indifference: every ballot is one class holding all the alternatives (all scores equal,
                # Borda totals all zero)
                m = rng.randint(1, 6)
                alts = gen.alt_ids(rng, m)
                c = {"type": "toc" if m > 1 else "soc", "alts": alts, "profile": [[[list(alts)], rng.randint(1, 5)]]}
            elif rule in ("approval", "sav") and r < 0.85:
                if rule == "sav" and rng.random() < 0.4:
                    c = self._sav_tie(rng)
                else:
                    c = approval_case(rng, rng.randint(2, 12), rng.randint(1, 6), big=rng.random() < 0.4)
            else:
                dom = RULES[rule][1] or ["soc", "soi", "toc", "toi"]
                kind = rng.choice(dom) if r < 0.8 else rng.choice(["soc", "soi", "toc", "toi"])
                c = gen.ordinal_case(rng, m=rng.randint(1 if rng.random() < 0.05 else 2, 6), n=rng.randint(1, 6), kind=kind,
                                     max_mult=50 if rng.random() < 0.3 else 4)
            case = {"kind": "rule", "rule": rule, **c}
            if rule == "k_approval":
                case["k"] = rng.randint(1, len(c["alts"]) + 2)
            if rng.random() < 0.15:
                # claim a type outside the domain to probe the guard
                case["declared"] = rng.choice(["soc", "soi", "toc", "toi", "cat", "wmd"])
            elif rng.random() < 0.2:
                case["grow"] = True
            yield case

    @staticmethod
    def _scale_case(rng, rule):
        """structured large inputs: many tied winners, wide profiles with drawn pairwise contests, satisfaction scores
        that differ by less than any float tolerance"""
        kind = rng.choice(["tied", "wide", "harmonic"]) if rule != "copeland" else rng.choice(["wide", "wide", "tied"])
        if rule == "sav" or kind == "harmonic":
            # a: 1/s + 1/(s+2)   b: 2/(s+1)   (b smaller by 2 / (s (s+1) (s+2)))
            s0 = rng.choice([20, 60, 150, 400])
            A = list(range(1, s0 + 1))                     # contains a = 1
            A2 = [1] + list(range(s0 + 1, 2 * s0 + 2))     # size s0 + 2, contains a
            B = list(range(2 * s0 + 2, 3 * s0 + 3))        # size s0 + 1, contains b
            alts = list(range(1, 3 * s0 + 3))
            c = rng.choice([1, 1, 3])
            return {"type": "toi", "alts": alts, "profile": [[[A], c], [[A2], c], [[B], 2 * c]]}
        if kind == "tied":
            # cyclic shifts: every alternative has the same score under every positional rule (m-way tie)
            m = rng.choice([11, 12, 25, 40])
            alts = list(range(1, m + 1))
            weak = rule in ("plurality", "approval", "veto", "borda", "sav") and rng.random() < 0.4
            if weak:
                prof = [[[alts], rng.randint(1, 3)]]       # one class holding everything
                return {"type": "toc", "alts": alts, "profile": prof}
            prof = [[[[alts[(i + j) % m]] for j in range(m)], 1] for i in range(m)]
            return {"type": "soc", "alts": alts, "profile": prof}
        if rng.random() < 0.7:
            # wide, padded: a small core profile with an even electorate (drawn contests) on top, 27-36 further
            # alternatives ranked below the core by every voter
            k = rng.choice([3, 4, 4, 5])
            core = list(range(1, k + 1))
            m = rng.choice([31, 36, 40])
            pad = gen.perm(rng, list(range(k + 1, m + 1)))
            prof, seen = [], set()
            if k >= 4 and rng.random() < 0.5:
                # two alternatives win the same number of contests, one of them also draws one, the other loses one
                # (x y z w twice, y z x w once, z x y w once; relabelled and scaled)
                x, y, z, w = gen.perm(rng, core)[:4]
                rest = [a for a in core if a not in (x, y, z, w)]
                cmul = rng.choice([1, 1, 2, 3])
                for o, mlt in (((x, y, z, w), 2), ((y, z, x, w), 1), ((z, x, y, w), 1)):
                    prof.append([[[a] for a in list(o) + rest + pad], mlt * cmul])
                return {"type": "soc", "alts": list(range(1, m + 1)), "profile": prof}
            for _ in range(rng.randint(2, 4)):
                o = tuple(gen.perm(rng, core))
                if o in seen:
                    continue
                seen.add(o)
                prof.append([[[a] for a in list(o) + pad], rng.choice([1, 1, 2, 3])])
            if sum(x for _, x in prof) % 2:
                prof[0][1] += 1
            return {"type": "soc", "alts": list(range(1, m + 1)), "profile": prof}
        # wide: more than 30 alternatives, an even number of voters, every order paired with its reverse for part of
        # the alternatives (drawn contests), one extra pair breaking the symmetry
        m = rng.choice([31, 36, 40])
        alts = list(range(1, m + 1))
        base = gen.perm(rng, alts)
        o2 = list(reversed(base))
        o3 = gen.perm(rng, alts)
        prof = [[[[a] for a in base], 1], [[[a] for a in o2], 1], [[[a] for a in o3], 1]]
        o4 = [o3[1], o3[0]] + list(reversed(o3[2:]))
        if o4 not in (base, o2, o3):
            prof.append([[[a] for a in o4], 1])
        return {"type": "soc", "alts": alts, "profile": prof}

    @staticmethod
    def _sav_tie(rng):
        """a in X(x1), Y(x2); b in Z(x3): exact tie of scores 1/s + 2/s = 3/s"""
        s = rng.choice([3, 7, 10, 10, 13])
        alts = list(range(1, 3 * s + 1))
        X = list(range(1, s + 1))
        Y = [1] + list(range(s + 1, 2 * s))
        Z = list(range(2 * s, 3 * s))
        c = rng.randint(1, 3)
        prof = [[[X], c], [[Y], 2 * c], [[Z], 3 * c]]
        return {"type": "toi", "alts": alts, "profile": prof}

    def run_impl(self, case):
        self.count("rule:" + case["rule"])
        dt = case.get("declared")
        obs = {"res": run_rule(case, case["rule"], case.get("k"), data_type=dt, grow=case.get("grow", False))}
        if dt is None and len(case["profile"]) > 1:
            # same ballots, reversed storage order and uniformly scaled multiplicities
            c2 = dict(case, profile=[[o, 3 * m] for o, m in reversed(case["profile"])])
            obs["regrouped"] = run_rule(c2, case["rule"], case.get("k"))
        return obs

    def requests(self, case, obs):
        d = gen.model_inst(case, op="voting.rule", rule=case["rule"], k=case.get("k", 1))
        if case.get("declared"):
            d["type"] = case["declared"]
        return [d]

    def nontrivial_key(self, case, obs):
        if obs["res"][0] != "ok" or len(case["profile"]) < 2:
            return None
        return repr((case["rule"], case.get("k"), case["alts"], case["profile"]))

    def judge(self, case, obs, replies):
        rep = replies[0]
        out = []
        rule = case["rule"]
        res = obs["res"]
        declared = case.get("declared") or case["type"]
        true_type = rep["typeOf"] if not case.get("declared") else None
        model = ("ok", sorted(rep["model"]["ok"])) if "ok" in rep["model"] else ("exc", rep["model"]["exc"])
        if rule in ("approval", "sav"):
            in_domain = declared in ("soc", "soi", "toc", "toi") and rep["isApproval"] is True
            guard_must_refuse = declared not in ("soc", "soi", "toc", "toi", "cat") or rep["isApproval"] is False
        else:
            in_domain = rep["inDomain"]
            guard_must_refuse = not in_domain
        self.count("in_domain" if in_domain else "outside_domain")
        if guard_must_refuse:
            if res != ("exc", "refused"):
                out.append(Problem("violation", case, f"{rule} on a {declared} instance outside its documented "
                                   f"domain must be refused with an error, got {res}", rule + "/guard"))
            return out
        if in_domain and not case.get("declared"):
            spec = ("ok", sorted(rep["spec"]))
            if res != spec:
                out.append(Problem("violation", case, f"{rule} winners = {res}, textbook winner set = {spec}",
                                   rule + "/winners"))
            if "regrouped" in obs and obs["regrouped"] != res:
                out.append(Problem("violation", case, f"{rule}: winners change when the same ballots are stored in "
                                   f"another order with scaled multiplicities: {res} vs {obs['regrouped']}",
                                   rule + "/regroup"))
            if model != spec:
                out.append(Problem("disagreement", case, f"Lean model {model} differs from Lean spec {spec}", "model/spec"))
        elif res != model:
            out.append(Problem("disagreement", case, f"{rule}: implementation {res}, model {model}", rule + "/other"))
        return out

    def shrink_candidates(self, case):
        for c in gen.shrink_profile_case(case):
            if case["rule"] in ("approval", "sav"):
                c["type"] = case["type"]
            yield c


PROP = C06
