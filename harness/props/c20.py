import itertools
from fractions import Fraction

from harness.core import Prop, Problem, call
from harness import gen


def _num(x):
    """exact value of an implementation float / int"""
    try:
        return Fraction(float(x)) if not isinstance(x, int) else Fraction(x)
    except (ValueError, OverflowError):
        return None


def _res(r):
    """canonical form of a call result holding a number"""
    if r[0] == "exc":
        return r
    v = r[1]
    try:
        f = float(v)
    except Exception:
        return ("ok", "non-numeric")
    if f != f:
        return ("ok", "nan")
    return ("ok", f)


class C20(Prop):
    """kendall_tau / footrule / Sertel on pairs and triples of rankings, and distance_matrix on
    strict complete instances: implementation vs Lean model, and vs the spec-level count of
    pairs ordered differently plus the metric laws."""

    id = "C20"
    level = "proof"
    design_ref = "§8 C20"
    level_text = ("Kendall-tau = number of discordant pairs, metric laws, zero-iff/symmetry/range of the footrule and "
                  "Sertel numerators, length guard and distance_matrix shape/diagonal/entry are Lean theorems about the "
                  "model of distances.py; the model is compared with the real functions on exhaustive small and random "
                  "large rankings on every run")
    level_note = ("Lean kernel + standard axioms; hand-written model; correspondence is differential testing; floats: "
                  "the model returns exact fractions and the implementation's float must equal the correctly rounded quotient")
    theorems = [
        "PrefVerif.C20.length_mismatch_refused",
        "PrefVerif.C20.defined_on_domain",
        "PrefVerif.C20.kt_eq_dis",
        "PrefVerif.C20.kt_symm",
        "PrefVerif.C20.kt_triangle",
        "PrefVerif.C20.kt_eq_zero_iff",
        "PrefVerif.C20.ktNorm_correct",
        "PrefVerif.C20.ktNorm_errors",
        "PrefVerif.C20.sertel_eq_zero_iff",
        "PrefVerif.C20.sertel_symm",
        "PrefVerif.C20.sertel_le_one",
        "PrefVerif.C20.footrule_eq_zero_iff",
        "PrefVerif.C20.footrule_symm",
        "PrefVerif.C20.footrule_le_one",
        "PrefVerif.C20.fullProfile_length",
        "PrefVerif.C20.distanceMatrix_shape",
        "PrefVerif.C20.distanceMatrix_entry",
        "PrefVerif.C20.distanceMatrix_diag",
        "PrefVerif.C20.distanceMatrix_symm",
    ]
    rule = ("pairs/triples of rankings: exhaustive over S_m x S_m for small m plus random m<=40; "
            "unequal lengths; strict complete instances with multiplicities for distance_matrix "
            "(three distances + an asymmetric probe function); non-trivial = rankings differ")
    assumptions = ["IEEE-754 division is correctly rounded (float == num/den computed by CPython)"]
    trusted_base = ["numpy float64 division; tuple.index semantics"]
    budget = {"quick": 600, "thorough": 40000}
    anchors = [("preflibtools.properties.distances", n) for n in
               ("distance_matrix", "kendall_tau_distance", "spearman_footrule_distance", "sertel_distance")] + \
              [("preflibtools.instances.preflibinstance.ordinal", "OrdinalInstance.full_profile")]

    def generate(self, rng, n, deep=False):
        # exhaustive small universes first
        for m in ([2, 3] if not (deep or self.tier == "thorough") else [2, 3, 4]):
            ps = list(itertools.permutations(range(1, m + 1)))
            for a in ps:
                for b in ps:
                    yield {"kind": "pair", "a": list(a), "b": list(b)}
        ps = list(itertools.permutations(range(1, 4)))
        for a in ps:
            for b in ps:
                for c in ps:
                    yield {"kind": "triple", "a": list(a), "b": list(b), "c": list(c)}
        for i in range(n):
            r = rng.random()
            m = rng.choice([2, 3, 4, 5, 6, 8, 12, 20, 40]) if r < 0.9 else rng.randint(2, 9)
            alts = gen.alt_ids(rng, m)
            if r < 0.35:
                a = gen.perm(rng, alts)
                b = gen.perm(rng, alts) if rng.random() < 0.7 else self._near(rng, a)
                yield {"kind": "pair", "a": a, "b": b}
            elif r < 0.6:
                a = gen.perm(rng, alts)
                yield {"kind": "triple", "a": a, "b": self._near(rng, a), "c": gen.perm(rng, alts)}
            elif r < 0.7:
                a = gen.perm(rng, alts)
                k = rng.randint(0, m + 2)
                b = gen.perm(rng, gen.alt_ids(rng, k)) if k else []
                yield {"kind": "pair", "a": a, "b": b}
            else:
                mm = rng.randint(2, 6)
                al, prof = gen.strict_profile(rng, mm, rng.randint(1, 5), max_mult=3)
                yield {"kind": "matrix", "alts": al, "profile": gen.to_json_profile(prof),
                       "fn": rng.choice(["kt", "fr", "se", "asym"]), "grow": rng.random() < 0.3}

    @staticmethod
    def _near(rng, a):
        b = list(a)
        for _ in range(rng.randint(0, 3)):
            i = rng.randrange(len(b) - 1) if len(b) > 1 else 0
            if len(b) > 1:
                b[i], b[i + 1] = b[i + 1], b[i]
        return b

    def _pair(self, a, b):
        from preflibtools.properties import distances as D
        a, b = tuple(a), tuple(b)
        # the normalised call comes first and the keyword calls last: an earlier call on the same pair
        # must not change what the plain call returns
        return {
            "ktn": _res(call(D.kendall_tau_distance, a, b, normalise=True)),
            "kt": _res(call(D.kendall_tau_distance, a, b)),
            "fr": _res(call(D.spearman_footrule_distance, a, b)),
            "se": _res(call(D.sertel_distance, a, b)),
            "kw_kt": _res(call(D.kendall_tau_distance, order1=a, order2=b)),
            "kw_fr": _res(call(D.spearman_footrule_distance, order1=a, order2=b)),
            "kw_se": _res(call(D.sertel_distance, order2=b, order1=a)),
        }

    def run_impl(self, case):
        k = case["kind"]
        self.count("kind:" + k)
        if k == "pair":
            return {"ab": self._pair(case["a"], case["b"]), "ba": self._pair(case["b"], case["a"])}
        if k == "triple":
            a, b, c = case["a"], case["b"], case["c"]
            return {"ab": self._pair(a, b), "bc": self._pair(b, c), "ac": self._pair(a, c)}
        from preflibtools.properties import distances as D
        fn0 = D.kendall_tau_distance
        inst = None
        if case.get("grow"):
            inst = gen.grown_instance(gen.from_json_profile(case["profile"]), case["alts"], "soc",
                                      lambda i: D.distance_matrix(i, fn0))
        if inst is None:
            inst = gen.make_ordinal(gen.from_json_profile(case["profile"]), alts=case["alts"])
        fn = {"kt": D.kendall_tau_distance, "fr": D.spearman_footrule_distance,
              "se": D.sertel_distance,
              "asym": lambda x, y: int(x[0][0]) * 1000 + int(y[0][0]) + 7 * len(x)}[case["fn"]]
        r = call(D.distance_matrix, inst, fn)
        if r[0] == "ok":
            try:
                r = ("ok", [[float(v) for v in row] for row in r[1].tolist()])
            except Exception as e:  # noqa
                r = ("ok", "malformed")
        return {"matrix": r, "n": inst.num_voters}

    def requests(self, case, obs):
        k = case["kind"]
        if k == "pair":
            return [{"op": "c20.pair", "a": case["a"], "b": case["b"]},
                    {"op": "c20.pair", "a": case["b"], "b": case["a"]}]
        if k == "triple":
            return [{"op": "c20.pair", "a": case[x], "b": case[y]} for x, y in ("ab", "bc", "ac")]
        prof = [[gen.flat(o), m] for o, m in case["profile"]]
        return [{"op": "c20.matrix", "fn": case["fn"], "profile": prof}]

    def nontrivial_key(self, case, obs):
        if case["kind"] == "matrix":
            return "m" + repr((case["profile"], case["fn"])) if len(case["profile"]) > 1 else None
        if case["a"] == case["b"]:
            return None
        return repr(case)

    # ---- judging
    def _cmp_pair(self, case, tag, a, b, impl, mod, out):
        """impl vs model and vs spec for one ordered pair"""
        same = mod["same"]
        # normalised Kendall-tau (outside the statement of C20: a difference is a model/code disagreement)
        mk = mod["ktn"]
        expn = ("exc", mk) if isinstance(mk, str) else ("ok", mk[0] / mk[1])
        if impl.get("ktn", expn) != expn:
            out.append(Problem("disagreement", case, f"kt({tag}, normalise=True): implementation {impl['ktn']}, "
                               f"model {expn}", "ktn/value"))
        for key in ("kt", "fr", "se", "kw_kt", "kw_fr", "kw_se"):
            name = key[-2:]
            if key not in impl:
                continue
            iv, mv = impl[key], mod[name]
            if key.startswith("kw_") and iv == ("exc", "TypeError"):
                continue        # parameters renamed: the keyword form is not available
            site = f"{name}" + ("/keywords" if key.startswith("kw_") else "")
            t = ("order1=" + tag.replace(",", ", order2=")) if key.startswith("kw_") else tag
            if len(a) != len(b):
                if iv != ("exc", "ValueError"):
                    out.append(Problem("violation", case, f"{name}({t}): rankings of different length "
                                       f"must be refused with ValueError, got {iv}", site + "/length"))
                continue
            if mv is None:
                exp = ("exc", "ValueError")
            elif name == "kt":
                exp = ("ok", float(mv))
            else:
                exp = ("ok", (mv[0] / mv[1]) if mv[1] else "nan")
            if same and len(a) >= 2:
                # inside the property's domain: the model is proved equal to the spec
                if iv != exp:
                    out.append(Problem("violation", case,
                                       f"{name}({t}) = {iv}, specification requires {exp}"
                                       + (f" (pairs ordered differently: {mod['dis']})" if name == "kt" else ""),
                                       site + "/value"))
                if name == "kt" and mv != mod["dis"]:
                    out.append(Problem("disagreement", case, "model kt differs from spec dis", "model/kt"))
            else:
                if iv != exp:
                    out.append(Problem("disagreement", case, f"{name}({t}): implementation {iv}, model {exp}",
                                       site + "/outside-domain"))

    def judge(self, case, obs, replies):
        out = []
        k = case["kind"]
        if k == "pair":
            a, b = case["a"], case["b"]
            self._cmp_pair(case, "a,b", a, b, obs["ab"], replies[0], out)
            self._cmp_pair(case, "b,a", b, a, obs["ba"], replies[1], out)
            if replies[0]["same"] and len(a) >= 2:
                for name in ("kt", "fr", "se"):
                    x, y = obs["ab"][name], obs["ba"][name]
                    if x != y:
                        out.append(Problem("violation", case, f"{name} not symmetric: {x} vs {y}", name + "/symm"))
                    if x[0] == "ok" and isinstance(x[1], float):
                        if (x[1] == 0) != (a == b):
                            out.append(Problem("violation", case, f"{name} = {x[1]} but identical={a == b}",
                                               name + "/zero-iff"))
                        if name != "kt" and not (0 <= x[1] <= 1):
                            out.append(Problem("violation", case, f"{name} = {x[1]} outside [0,1]", name + "/range"))
            return out
        if k == "triple":
            for t, rep in zip(("ab", "bc", "ac"), replies):
                self._cmp_pair(case, f"{t[0]},{t[1]}", case[t[0]], case[t[1]], obs[t], rep, out)
            try:
                ab, bc, ac = (obs[t]["kt"][1] for t in ("ab", "bc", "ac"))
                if all(isinstance(v, float) for v in (ab, bc, ac)) and ac > ab + bc:
                    out.append(Problem("violation", case, f"triangle inequality fails: d(a,c)={ac} > {ab}+{bc}",
                                       "kt/triangle"))
            except Exception:
                pass
            return out
        # matrix
        rep = replies[0]
        r = obs["matrix"]
        n = sum(m for _, m in case["profile"])
        if r[0] != "ok" or r[1] == "malformed":
            out.append(Problem("violation", case, f"distance_matrix failed: {r}", "matrix/call"))
            return out
        M = r[1]
        if len(M) != n or any(len(row) != n for row in M):
            out.append(Problem("violation", case, f"matrix shape is not {n}x{n}", "matrix/shape"))
            return out
        exp = [[(e[0] / e[1]) if e[1] else float("nan") for e in row] for row in rep["matrix"]]
        for i in range(n):
            for j in range(n):
                if M[i][j] != exp[i][j]:
                    out.append(Problem("violation", case,
                                       f"entry ({i},{j}) = {M[i][j]}, distance of ballots {i},{j} of the full profile is {exp[i][j]}",
                                       "matrix/entry"))
                    return out
        return out

    def shrink_candidates(self, case):
        k = case["kind"]
        if k in ("pair", "triple"):
            keys = ["a", "b"] + (["c"] if k == "triple" else [])
            alts = sorted(set(case["a"]))
            for x in alts:
                c2 = dict(case)
                for key in keys:
                    c2[key] = [y for y in case[key] if y != x]
                if len(c2["a"]) >= 2:
                    yield c2
        else:
            prof = case["profile"]
            for i in range(len(prof)):
                if len(prof) > 1:
                    yield dict(case, profile=prof[:i] + prof[i + 1:])
            for i in range(len(prof)):
                if prof[i][1] > 1:
                    p2 = [list(x) for x in prof]
                    p2[i][1] -= 1
                    yield dict(case, profile=p2)


PROP = C20
