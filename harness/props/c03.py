import itertools

from harness.core import Prop, Problem, call
from harness import gen
from harness.props.c11 import sp_votes


class C03(Prop):
    """is_single_peaked on strict complete profiles: verdict vs the Lean brute force over all axes
    (m <= 7) and planted single-peaked profiles far beyond brute force (m <= 30, n <= 200); the returned
    axis is validated by the Lean witness checker (permutation of the alternatives + every top-k set
    contiguous)."""

    id = "C03"
    level = "proof"
    design_ref = "§8 C03"
    level_text = ("Lean: a statement-faithful model of the whole Escoffier-Lang-Ozturk elimination (same verdict and same "
                  "axis as the real function on 36 000+ profiles, and on every run here) whose verdict is proved exact: "
                  "C03c.exact (True iff some axis makes every top-k set contiguous), verdict_eq_bruteSP, true_sound / "
                  "axis_perm (a True answer comes with an axis listing every alternative once on which every voter is "
                  "single-peaked), false_sound (each of the four False exits - three last-ranked candidates in some round, "
                  "the two contradiction breaks, a failing Case 2(d) test - contradicts the existence of a valid axis), "
                  "never_raises. Verified witness checker and brute-force decider. The real function's verdict is "
                  "compared with the model and with the verified brute force / planted profiles up to m = 30, n = 200, "
                  "and its axis is judged by the verified checker, on every run")
    level_note = ("Lean kernel + standard axioms; hand-written model tied to the code by the correspondence check")
    theorems = [
        "PrefVerif.C03c.exact",
        "PrefVerif.C03c.false_sound",
        "PrefVerif.C03c.verdict_iff",
        "PrefVerif.C03c.verdict_eq_bruteSP",
        "PrefVerif.C03c.run_complete",
        "PrefVerif.C03c.three_last_exit_not_sp",
        "PrefVerif.C03c.case2d_fail_not_sp",
        "PrefVerif.C03c.contra_not_sp",
        "PrefVerif.C03.axis_perm",
        "PrefVerif.C03.true_sound",
        "PrefVerif.C03.true_imp_SP",
        "PrefVerif.C03.case2d_checked",
        "PrefVerif.C03.three_last_not_sp",
        "PrefVerif.C03.never_raises",
        "PrefVerif.C03.run_good",
        "PrefVerif.C03.fuel_irrelevant",
        "PrefVerif.C11.spWitness_iff",
        "PrefVerif.C11.bruteSP_iff",
        "PrefVerif.C11.spOnAxis_iff",
        "PrefVerif.C11.orderOk_iff",
    ]
    rule = ("exhaustive: all profiles with <= 3 distinct orders over 3 alternatives and <= 2 over 4; random profiles "
            "m <= 7, n <= 6 against brute force; planted single-peaked profiles (random axis, outside-in votes) up to "
            "m = 30, n = 200 with shuffled storage and arbitrary ids, and one-swap perturbations; non-trivial = >= 2 "
            "orders and >= 3 alternatives; two or three voters on a long axis (9-30 alternatives) (ids: 1..m, 0-based, shifted, sparse, near 2^31 / 2^62 / 10^18, decimal spellings that collide when concatenated, multiples of m apart); 30 % of the cases carry multiplicities and 25 % are built in two stages on one object through the append_* entry points (vote_map / order_list / order / int64 and object order_array, part of a stored order's multiplicity held back) with a query in between")
    budget = {"quick": 800, "thorough": 20000}
    anchors = [("preflibtools.properties.subdomains.ordinal.singlepeaked.singlepeakedness", "is_single_peaked"),
               ("preflibtools.properties.subdomains.ordinal.singlepeaked.singlepeakedness", "is_single_peaked_axis"),
               ("preflibtools.instances.preflibinstance.ordinal", "OrdinalInstance.flatten_strict")]

    def corpus(self):
        return [{"kind": "profile", "alts": [1, 2, 3, 4, 5], "planted": None,
                 "orders": [[2, 1, 3, 4, 5], [3, 1, 4, 2, 5]]}] + super().corpus()

    def generate(self, rng, n, deep=False):
        ps = list(itertools.permutations([1, 2, 3]))
        for k in (1, 2, 3):
            for sub in itertools.combinations(ps, k):
                yield {"kind": "profile", "alts": [1, 2, 3], "orders": [list(o) for o in sub], "planted": None}
        ps4 = list(itertools.permutations([1, 2, 3, 4]))
        for sub in itertools.combinations(ps4, 2):
            if rng.random() < (1.0 if deep or self.tier == "thorough" else 0.25):
                yield {"kind": "profile", "alts": [1, 2, 3, 4], "orders": [list(o) for o in sub], "planted": None}
        if self.tier == "thorough":
            # every set of three distinct orders over four alternatives (2 024 profiles)
            for sub in itertools.combinations(ps4, 3):
                yield {"kind": "profile", "alts": [1, 2, 3, 4], "orders": [list(o) for o in sub], "planted": None}
        for i in range(n):
            for c in self._random_case(rng):
                yield gen.strict_case_extras(rng, c)

    def _random_case(self, rng):
            r = rng.random()
            if r < 0.4:
                m = rng.randint(1, 7)
                alts = gen.alt_ids(rng, m, zero_ok=True)
                orders = [list(o) for o in gen.strict_orders(rng, alts, rng.randint(1, 6))]
                yield {"kind": "profile", "alts": gen.perm(rng, alts) if rng.random() < 0.3 else alts,
                       "orders": orders, "planted": None}
            else:
                m = rng.choice([3, 4, 5, 6, 7, 9, 12, 20, 30])
                few = r > 0.8        # two or three voters on a long axis: many rounds with a single last alternative
                if few:
                    m = rng.choice([9, 12, 16, 20, 30])
                alts = gen.alt_ids(rng, m, zero_ok=True)
                axis = gen.perm(rng, alts)
                nn = rng.choice([2, 3, 5, 8, 20, 60, 200]) if m > 7 else rng.randint(2, 8)
                if few:
                    nn = rng.choice([2, 2, 2, 3])
                votes = [[c[0] for c in v] for v in sp_votes(rng, axis, nn)]
                orders = [list(o) for o in dict.fromkeys(map(tuple, votes))]
                planted = True
                if rng.random() < 0.35 and m >= 3:
                    k = rng.randrange(len(orders))
                    o = list(orders[k])
                    a, b = rng.sample(range(m), 2)
                    o[a], o[b] = o[b], o[a]
                    if o not in orders:
                        orders[k] = o
                        planted = None
                rng.shuffle(orders)
                yield {"kind": "profile", "alts": alts, "orders": orders, "planted": planted}

    def run_impl(self, case):
        from preflibtools.properties.subdomains.ordinal.singlepeaked.singlepeakedness import is_single_peaked
        inst = gen.strict_case_instance(case, is_single_peaked)
        self.count("built:" + ("grown" if case.get("grow") else "direct") + ("+mult" if case.get("mults") else ""))
        r = call(is_single_peaked, inst)
        if r[0] == "ok":
            v, ax = r[1]
            try:
                r = ("ok", [bool(v), [int(a) for a in ax] if ax is not None else None])
            except Exception:
                r = ("ok", [bool(v), "malformed"])
        return {"res": r}

    def requests(self, case, obs):
        r = obs["res"]
        w = [r[1][1]] if r[0] == "ok" and isinstance(r[1][1], list) else []
        return [{"op": "dom.sp", "type": "soc", "alts": case["alts"], "orders": [[[a] for a in o] for o in case["orders"]],
                 "axes": [], "witnesses": w, "brute": len(case["alts"]) <= 7},
                {"op": "elo.sp", "orders": case["orders"]}]

    def nontrivial_key(self, case, obs):
        return repr((case["alts"], case["orders"])) if len(case["orders"]) >= 2 and len(case["alts"]) >= 3 else None

    def judge(self, case, obs, replies):
        rep = replies[0]
        out = []
        P = lambda what, site: out.append(Problem("violation", case, what, site))
        r = obs["res"]
        if r[0] != "ok":
            P(f"is_single_peaked raised {r[1]}", "call")
            return out
        v, ax = r[1]
        truth = rep["bruteSP"]
        if truth is None and case["planted"]:
            truth = True
        self.count("truth:" + str(truth))
        if truth is not None and v != truth:
            P(f"is_single_peaked answers {v}; an axis on which every top-k set is contiguous "
              f"{'exists' if truth else 'does not exist'}", "verdict")
        if v and rep["witnessOk"] != [True]:
            P(f"returned axis {ax} does not list every alternative exactly once with every voter single-peaked on it",
              "axis")
        # the Lean model of the Escoffier-Lang-Ozturk elimination (statement-faithful: same verdict AND same axis)
        mres = replies[1]["result"]
        mv = None if mres is None else bool(mres[0])
        self.count("model-exit:" + str(replies[1].get("exit")))
        if mv != v:
            out.append(Problem("disagreement", case, f"model verdict {mv} vs implementation {v}", "model/verdict"))
        elif v and mres[1] != ax:
            # a different (valid) axis is drift, not a broken correspondence on a property observable
            self.count("axis-drift")
        return out

    def shrink_candidates(self, case):
        os_ = case["orders"]
        yield from gen.strict_case_shrinks(case)
        ms = case.get("mults")
        for i in range(len(os_)):
            if len(os_) > 1:
                c2 = dict(case, orders=os_[:i] + os_[i + 1:], planted=None)
                if ms:
                    c2["mults"] = ms[:i] + ms[i + 1:]
                yield c2
        if len(case["alts"]) > 2:
            for x in case["alts"]:
                o2 = [[a for a in o if a != x] for o in os_]
                if len({tuple(o) for o in o2}) == len(o2):
                    yield dict(case, alts=[a for a in case["alts"] if a != x], orders=o2, planted=None)


PROP = C03
