import warnings
from collections import Counter

from harness.core import Prop, Problem, call
from harness import gen

SAMPLERS = ("impartial", "urn", "impartial_anonymous", "sampling_mixture")


def tup(o):
    return tuple(tuple(int(a) for a in c) for c in o)


class C02(Prop):
    """histories of append_order / append_order_array / append_order_list / append_vote_map /
    populate_* on a fresh OrdinalInstance: after every operation all redundant fields, the views and
    the library's sanity checker are compared with the multiset of votes added so far (computed by
    the Lean spec) and with the Lean state machine; every history is also replayed regrouped."""

    id = "C02"
    level = "proof"
    design_ref = "§8 C02"
    level_text = ("Lean theorem by induction over operation sequences: every reachable state of the model of the "
                  "append_* / populate_* API is Consistent with the multiset of votes of the history (multiplicity = "
                  "count, duplicate-free orders with the same support, num_voters, num_unique_orders, alternatives, "
                  "data_type = type of the ballots); corollaries: regrouping invariance, views, clean sanity report. "
                  "The model is stepped alongside the real object on every run and compared after every operation")
    level_note = ("Lean kernel + standard axioms; hand-written model; prefsampling samplers are a parameter (their "
                  "actual output is captured and fed to the model); set iteration order is not modelled (alternative "
                  "keys compared as sets)")
    theorems = [
        "PrefVerif.C02.invariant",
        "PrefVerif.C02.regroup",
        "PrefVerif.C02.inferType_eq",
        "PrefVerif.C02.views",
        "PrefVerif.C02.sanity_clean",
        "PrefVerif.C02.type_agrees",
        "PrefVerif.C02.cex_invariant_nil",
        "PrefVerif.C02Indif.maxNumIndif_spec",
        "PrefVerif.C02Indif.minNumIndif_spec",
        "PrefVerif.C02Indif.minNumIndif_le_max",
        "PrefVerif.C02Indif.indif_bounds",
        "PrefVerif.C02Indif.isStrict_maxNumIndif",
        "PrefVerif.C02Indif.indif_stats_of_votes",
        "PrefVerif.C02Indif.indif_stats_regroup",
    ]
    rule = ("random histories of 1-8 operations mixing the four entry points and populate_IC/urn/IC_anon/mallows, "
            "strict/weak/partial votes with repeats within and across calls, numpy int ids; each history is replayed "
            "with the same multiset of votes regrouped into different operations; non-trivial = >= 2 operations and "
            "some vote repeated")
    budget = {"quick": 250, "thorough": 10000}
    anchors = [("preflibtools.instances.preflibinstance.ordinal", "OrdinalInstance." + n) for n in
               ("append_order", "append_order_array", "append_order_list", "append_vote_map", "infer_type",
                "vote_map", "full_profile", "flatten_strict", "populate_IC", "populate_urn", "populate_mallows",
                "populate_IC_anon")] + \
              [("preflibtools.instances.sampling", "prefsampling_ordinal_wrapper"),
               ("preflibtools.instances.sanity", "orders")] + \
              [("preflibtools.properties.basic", n) for n in
               ("largest_ballot", "smallest_ballot", "max_num_indif", "min_num_indif", "largest_indif",
                "smallest_indif", "is_strict", "is_complete")]

    # ---------------- generation
    def _vote(self, rng, alts, strict=None, complete=None):
        strict = rng.random() < 0.6 if strict is None else strict
        if strict:
            l = gen.perm(rng, alts)
            if not (rng.random() < 0.6 if complete is None else complete):
                l = l[: rng.randint(1, len(l))]
            return [[a] for a in l]
        return [list(c) for c in gen.weak_order(rng, alts, complete=rng.random() < 0.6)]

    def generate(self, rng, n, deep=False):
        for _ in range(n):
            m = rng.randint(1, 5)
            scale = rng.random() < 0.03     # scale: bulk batches (over a thousand rows / hundreds of orders), 260+ alternatives
            if scale and rng.random() < 0.3:
                m = rng.choice([257, 300])
            alts = gen.alt_ids(rng, m, style="1m" if m > 100 else None)
            if rng.random() < 0.1:
                alts = [0] + alts[1:]
            pool = []  # votes to draw repeats from
            ops = []
            mode = rng.choice(["strict", "mixed", "mixed"])
            for _ in range(rng.randint(1, 8 if deep else 6)):
                def vote(strict=None, complete=None):
                    if pool and rng.random() < 0.45:
                        v = rng.choice(pool)
                        if strict and any(len(c) != 1 for c in v):
                            v = self._vote(rng, alts, True, complete)
                    else:
                        v = self._vote(rng, alts, strict if strict is not None else (True if mode == "strict" else None), complete)
                    pool.append(v)
                    return v
                k = rng.choice(["order", "array", "list", "map", "map", "list", "populate"])
                if k == "order":
                    ops.append({"k": "order", "o": [c[0] for c in vote(strict=True)]})
                elif k == "array":
                    ln = rng.randint(1, len(alts))
                    rows = []
                    for _ in range(rng.choice([1030, 2100]) if scale and m < 100 else rng.randint(1, 4)):
                        if rows and rng.random() < (0.995 if scale else 0.4):
                            rows.append(list(rng.choice(rows)))
                        else:
                            rows.append(gen.perm(rng, alts)[:ln])
                    for r in rows:
                        pool.append([[a] for a in r])
                    ops.append({"k": "array", "os": rows})
                elif k == "list":
                    ops.append({"k": "list", "os": [vote() for _ in range(rng.choice([210, 640]) if scale and m < 100 else rng.randint(1, 4))]})
                elif k == "map":
                    vm, seen = [], set()
                    for _ in range(rng.randint(1, 3)):
                        v = vote()
                        if repr(v) in seen:
                            continue
                        seen.add(repr(v))
                        vm.append([v, rng.randint(1, 4)])
                    ops.append({"k": "map", "vm": vm})
                else:
                    ops.append({"k": "populate", "which": rng.choice(["IC", "urn", "IC_anon", "mallows"]),
                                "n": rng.randint(1, 6), "m": rng.randint(1, 4), "seed": rng.randint(0, 10 ** 6)})
            yield {"kind": "history", "ops": ops, "shuffle": rng.randint(0, 10 ** 6)}

    # ---------------- implementation
    def _apply(self, inst, op, captured):
        import numpy as np
        k = op["k"]
        if k == "order":
            inst.append_order(tuple(op["o"]))
        elif k == "array":
            inst.append_order_array(np.array(op["os"], dtype=np.int64))
        elif k == "list":
            # classes as tuples or lists (the Iterable normalisation)
            inst.append_order_list([tuple((tuple(c) if i % 2 else list(c)) for i, c in enumerate(o)) for o in op["os"]])
        elif k in ("map", "sample_as_map"):
            inst.append_vote_map({tup(o): m for o, m in op["vm"]})
        elif k == "populate":
            from preflibtools.instances import sampling
            np.random.seed(op["seed"])
            orig = {n: getattr(sampling, n) for n in SAMPLERS}

            def wrap(f):
                def g(*a, **kw):
                    kw.setdefault("seed", op["seed"])
                    try:
                        r = f(*a, **kw)
                    except TypeError:
                        kw.pop("seed", None)
                        r = f(*a, **kw)
                    captured.append([[int(x) for x in row] for row in r])
                    return r
                return g
            try:
                for nme in SAMPLERS:
                    setattr(sampling, nme, wrap(orig[nme]))
                w = op["which"]
                if w == "IC":
                    inst.populate_IC(op["n"], op["m"])
                elif w == "urn":
                    inst.populate_urn(op["n"], op["m"], 3)
                elif w == "IC_anon":
                    inst.populate_IC_anon(op["n"], op["m"])
                else:
                    ref = tuple((a,) for a in range(op["m"]))
                    inst.populate_mallows(op["n"], op["m"], [1], [0.4], [ref])
            finally:
                for nme in SAMPLERS:
                    setattr(sampling, nme, orig[nme])

    def _observe(self, inst):
        from preflibtools.instances import sanity
        from preflibtools.properties import basic
        with warnings.catch_warnings():
            warnings.simplefilter("ignore")
            obs = {
                "alts": sorted(int(a) for a in inst.alternatives_name),
                "names_ok": all(v == "Alternative " + str(k) for k, v in inst.alternatives_name.items()),
                "num_alternatives": inst.num_alternatives, "num_voters": inst.num_voters,
                "num_unique_orders": inst.num_unique_orders,
                "orders": [tup(o) for o in inst.orders],
                "multiplicity": [[tup(o), int(m)] for o, m in inst.multiplicity.items()],
                "data_type": inst.data_type, "infer_type": inst.infer_type(),
                "vote_map": [[tup(o), int(m)] for o, m in inst.vote_map().items()],
                "full_profile": [tup(o) for o in inst.full_profile()],
                "flatten": call(lambda: [[list(map(int, o)), int(m)] for o, m in inst.flatten_strict()]),
                "preferences_alias": inst.preferences is inst.orders,
            }
            obs["sanity"] = call(lambda: sanity.orders(inst))
            for f in ("is_strict", "is_complete", "largest_ballot", "smallest_ballot",
                      "max_num_indif", "min_num_indif", "largest_indif", "smallest_indif"):
                r = call(getattr(basic, f), inst)
                obs[f] = r if r[0] != "ok" else ("ok", r[1] if isinstance(r[1], bool) else int(r[1]))
        return obs

    def _run_history(self, ops):
        from preflibtools.instances import OrdinalInstance
        inst = OrdinalInstance()
        states, model_ops = [], []
        for op in ops:
            cap = []
            r = call(self._apply, inst, op, cap, limit=10)
            if r[0] != "ok":
                states.append({"error": r[1]})
                break
            if op["k"] == "populate":
                if len(cap) != 1:
                    states.append({"error": f"sampler called {len(cap)} times"})
                    break
                model_ops.append({"k": "sample", "votes": cap[0]})
            else:
                model_ops.append(op)
            states.append(self._observe(inst))
            self.count("op:" + op["k"])
        return states, model_ops

    def _regroup(self, model_ops, seed):
        """the same multiset of votes, shuffled and batched differently"""
        import random
        rng = random.Random(seed)
        votes = []
        for op in model_ops:
            k = op["k"]
            if k == "order":
                votes.append([[a] for a in op["o"]])
            elif k == "array":
                votes += [[[a] for a in r] for r in op["os"]]
            elif k == "list":
                votes += [[list(c) for c in o] for o in op["os"]]
            elif k == "map":
                for o, m in op["vm"]:
                    votes += [[list(c) for c in o]] * m
            else:
                votes += [[[a] for a in r] for r in op["votes"]]
        rng.shuffle(votes)
        ops, i = [], 0
        while i < len(votes):
            j = min(len(votes), i + rng.randint(1, 4))
            chunk = votes[i:j]
            i = j
            strict = all(len(c) == 1 for v in chunk for c in v)
            k = rng.choice(["list", "map", "order", "array"])
            if k == "order" and strict:
                ops += [{"k": "order", "o": [c[0] for c in v]} for v in chunk]
            elif k == "array" and strict and len({len(v) for v in chunk}) == 1:
                ops.append({"k": "array", "os": [[c[0] for c in v] for v in chunk]})
            elif k == "map":
                cnt = Counter(repr(v) for v in chunk)
                seen, vm = set(), []
                for v in chunk:
                    if repr(v) not in seen:
                        seen.add(repr(v))
                        vm.append([v, cnt[repr(v)]])
                ops.append({"k": "map", "vm": vm})
            else:
                ops.append({"k": "list", "os": chunk})
        return ops

    def run_impl(self, case):
        states, model_ops = self._run_history(case["ops"])
        obs = {"states": states, "model_ops": model_ops}
        if states and "error" not in states[-1]:
            rops = self._regroup(model_ops, case["shuffle"])
            rstates, _ = self._run_history(rops)
            obs["regrouped_ops"] = rops
            obs["regrouped_final"] = rstates[-1] if rstates else None
        return obs

    def requests(self, case, obs):
        return [{"op": "c02.run", "ops": obs["model_ops"]}]

    def nontrivial_key(self, case, obs):
        if len(case["ops"]) < 2 or not obs["states"] or "error" in obs["states"][-1]:
            return None
        s = obs["states"][-1]
        if s["num_voters"] == s["num_unique_orders"]:
            return None
        return repr(case["ops"])

    # ---------------- judging
    def _check_state(self, case, i, st, ms, out):
        P = lambda what, site: out.append(Problem("violation", case, f"after operation {i + 1}: {what}", site))
        spec = {tup(o): m for o, m in ms["specVotes"]}
        mult = {o: m for o, m in ((tuple(map(tuple, o)), m) for o, m in st["multiplicity"])}
        orders = [tuple(map(tuple, o)) for o in st["orders"]]
        if mult != spec:
            P(f"multiplicity table {st['multiplicity']} is not the multiset of votes added {ms['specVotes']}", "multiplicity")
        if len(set(orders)) != len(orders) or set(orders) != set(spec):
            P(f"orders list {orders} is not the duplicate-free support of the votes", "orders")
        if st["num_voters"] != ms["specNumVoters"]:
            P(f"num_voters {st['num_voters']} != {ms['specNumVoters']} votes added", "num_voters")
        if st["num_unique_orders"] != len(spec):
            P(f"num_unique_orders {st['num_unique_orders']} != {len(spec)} distinct votes", "num_unique_orders")
        if st["alts"] != sorted(ms["specAlts"]) or st["num_alternatives"] != len(ms["specAlts"]) or not st["names_ok"]:
            P(f"alternatives {st['alts']} / num_alternatives {st['num_alternatives']} do not match those occurring "
              f"{sorted(ms['specAlts'])}", "alternatives")
        if st["data_type"] != ms["specType"] or st["infer_type"] != ms["specType"]:
            P(f"data_type {st['data_type']} / infer_type {st['infer_type']} but the ballots are {ms['specType']}", "data_type")
        if dict((tuple(map(tuple, o)), m) for o, m in st["vote_map"]) != spec:
            P("vote_map() differs from the multiset of votes", "vote_map")
        fp = Counter(tuple(map(tuple, o)) for o in st["full_profile"])
        if dict(fp) != spec:
            P("full_profile() is not the multiset of votes", "full_profile")
        if not st["preferences_alias"]:
            P("preferences no longer aliases orders", "preferences")
        t = ms["specType"]
        if st["is_strict"] != ("ok", t in ("soc", "soi")):
            P(f"is_strict {st['is_strict']} disagrees with data type {t}", "is_strict")
        if st["is_complete"] != ("ok", t in ("soc", "toc")):
            P(f"is_complete {st['is_complete']} disagrees with data type {t}", "is_complete")
        sizes = [sum(len(c) for c in o) for o in spec]
        if st["largest_ballot"] != ("ok", max(sizes)) or st["smallest_ballot"] != ("ok", min(sizes)):
            P("ballot-size statistics disagree with the votes", "ballot_stats")
        nind = [sum(1 for c in o if len(c) > 1) for o in spec]
        csz = [len(c) for o in spec for c in o if len(c) > 0]
        nalt = len(ms["specAlts"])
        want = {"max_num_indif": max(nind + [0]), "min_num_indif": min(nind + [nalt]),
                "largest_indif": max(csz + [0]), "smallest_indif": min(csz + [nalt])}
        # the Lean specification evaluator (statistics of the list of votes, C02Indif.indif_stats_of_votes)
        # is the judge; the Python recomputation above only cross-checks it
        for f, sk in (("max_num_indif", "specMaxNumIndif"), ("min_num_indif", "specMinNumIndif"),
                      ("largest_indif", "specLargestIndif"), ("smallest_indif", "specSmallestIndif")):
            if sk in ms:
                if ms[sk] != want[f]:
                    out.append(Problem("disagreement", case, f"after operation {i + 1}: Lean spec {sk}={ms[sk]} "
                                       f"differs from the harness recomputation {want[f]}", "spec/indif_stats"))
                want[f] = ms[sk]
        for f, mk in (("max_num_indif", "maxNumIndif"), ("min_num_indif", "minNumIndif"),
                      ("largest_indif", "largestIndif"), ("smallest_indif", "smallestIndif")):
            if st[f] != ("ok", want[f]):
                P(f"{f} {st[f]} but the votes give {want[f]}", "indif_stats")
            elif mk in ms and ms[mk] != want[f]:
                out.append(Problem("disagreement", case, f"after operation {i + 1}: Lean model {mk}={ms[mk]} "
                                   f"but the implementation and the votes give {want[f]}", "model/indif_stats"))
        if t in ("soc", "soi"):
            fl = {tuple(o): m for o, m in st["flatten"][1]} if st["flatten"][0] == "ok" else None
            if fl != {tuple(c[0] for c in o): m for o, m in spec.items()}:
                P("flatten_strict() differs from the votes", "flatten_strict")
        san = st["sanity"]
        bad = [e for e in (san[1] if san[0] == "ok" else [str(san)]) if "0 appears" not in e]
        if bad:
            P(f"sanity.orders complains: {bad}", "sanity")
        # the Lean model against the Lean spec
        m_ok = (dict((tup(o), m) for o, m in ms["multiplicity"]) == spec and ms["numVoters"] == ms["specNumVoters"]
                and ms["dataType"] == ms["specType"] and sorted(ms["altKeys"]) == sorted(ms["specAlts"])
                and [s for s in ms["sanity"] if s != "0 appears"] == [])
        if not m_ok:
            out.append(Problem("disagreement", case, f"after operation {i + 1}: Lean model inconsistent with Lean spec", "model/spec"))

    def judge(self, case, obs, replies):
        out = []
        ms = replies[0]["states"]
        sts = obs["states"]
        if sts and "error" in sts[-1]:
            out.append(Problem("violation", case, f"operation {len(sts)} raised {sts[-1]['error']}", "exception"))
            sts = sts[:-1]
        for i, (st, m) in enumerate(zip(sts, ms)):
            assert m["wf"], "generator produced an ill-formed history"
            self._check_state(case, i, st, m, out)
            if out:
                return out
        rf = obs.get("regrouped_final")
        if rf is not None and sts:
            a = sts[-1]
            if "error" in rf:
                out.append(Problem("violation", case, f"regrouped history raised {rf['error']}", "regroup"))
            else:
                key = lambda s: (sorted(map(repr, s["multiplicity"])), s["num_voters"], s["num_unique_orders"],
                                 s["num_alternatives"], s["alts"], s["data_type"], sorted(map(repr, s["orders"])))
                if key(a) != key(rf):
                    out.append(Problem("violation", dict(case, regrouped=obs["regrouped_ops"]),
                                       "the same multiset of votes added through a different history gives a different instance",
                                       "regroup"))
        return out

    def shrink_candidates(self, case):
        ops = case["ops"]
        for i in range(len(ops)):
            if len(ops) > 1:
                yield dict(case, ops=ops[:i] + ops[i + 1:])
        for i, op in enumerate(ops):
            for key in ("os", "vm"):
                if key in op and len(op[key]) > 1:
                    for j in range(len(op[key])):
                        o2 = dict(op)
                        o2[key] = op[key][:j] + op[key][j + 1:]
                        yield dict(case, ops=ops[:i] + [o2] + ops[i + 1:])


PROP = C02
