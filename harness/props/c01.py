from collections import Counter

from harness.core import Prop, Problem, call
from harness import iolib, pytables


def roundtrip_case(prop, case, edges=False):
    """shared by C01 / C08 / C09: write -> parse -> write on the real code"""
    j = case["inst"]
    inst = iolib.build(j)
    name = j["header"]["file_name"]
    if case.get("unnamed"):
        inst.file_name = ""           # an in-memory instance never given a name: write() names it after the file
    (w1, path) = iolib.write_impl(inst, name)
    obs = {"write1": w1}
    if case.get("unnamed") and w1[0] == "ok":
        obs["name_after_write"] = inst.file_name
        obs["write1_again"] = iolib.write_impl(inst, name)[0]        # the same unchanged object written again
    if j["cls"] == "mat":
        obs["built"] = iolib.describe(inst)       # the graph as its public API shows it after the add_edge history
    if w1[0] != "ok":
        return obs
    res, _ = iolib.parse_impl("get", None, path=path)
    obs["parsed"] = res
    if res[0] == "ok":
        inst2 = iolib.build(res[1])
        w2, _ = iolib.write_impl(inst2, "second_" + name)
        obs["write2"] = w2
    return obs


def roundtrip_requests(case, obs):
    j = case["inst"]
    name = j["header"]["file_name"]
    reqs = [{"op": "io.write", "inst": j}]
    if obs["write1"][0] == "ok":
        text = obs["write1"][1]
        reqs.append({"op": "io.parse", "entry": "get", "base": name, "ext": name.rsplit(".", 1)[-1],
                     "content": text, "floats": iolib.float_table(text)})
        reqs.append({"op": "io.read", "text": text, "edges": j["cls"] == "mat"})
    return reqs


def expected_fields(j):
    h = j["header"]
    f = [[iolib.META_KEYS[k], h[k]] for k in iolib.META]
    f.append(["NUMBER ALTERNATIVES", str(h["num_alternatives"])])
    if j["cls"] == "ord":
        f += [["NUMBER VOTERS", str(h["num_voters"])], ["NUMBER UNIQUE ORDERS", str(j["num_unique"])]]
    elif j["cls"] == "cat":
        f += [["NUMBER VOTERS", str(h["num_voters"])], ["NUMBER UNIQUE PREFERENCES", str(j["num_unique"])],
              ["NUMBER CATEGORIES", str(j["num_categories"])]]
    else:
        f += [["NUMBER EDGES", str(j["num_edges"])]]
    return f


def judge_roundtrip(prop, case, obs, replies, skip=()):
    out = []
    j = case["inst"]
    P = lambda what, site: out.append(Problem("violation", case, what, site))
    D = lambda what, site: out.append(Problem("disagreement", case, what, site))
    w1 = obs["write1"]
    if w1[0] != "ok":
        P(f"write raised {w1}", "write/call")
        return out
    text = w1[1]
    if case.get("unnamed"):
        if obs.get("name_after_write") != j["header"]["file_name"]:
            P(f"write() of an instance without file_name left file_name = {obs.get('name_after_write')!r} "
              f"(documented: set according to the file path {j['header']['file_name']!r})", "write/file_name")
        if obs.get("write1_again") != w1:
            P("writing the same unchanged instance a second time gives a different file", "write/twice")
    mtext = replies[0]["text"]
    res = obs["parsed"]
    if res[0] != "ok":
        P(f"parsing the written file raised {res[1]}", "parse/call")
        return out
    a, b = iolib.canon(j), iolib.canon(res[1])
    d = iolib.diff(a, b, skip=skip)
    if d:
        P(f"write -> parse changes {d}: wrote {j}, read back {res[1]}", "roundtrip/" + d[0])
    w2 = obs.get("write2")
    if w2 is None or w2[0] != "ok" or w2[1] != text:
        P("writing the re-parsed instance does not reproduce the file byte for byte", "rewrite")
    # the independent reader of the documented format on the implementation's file
    content = replies[2]["content"]
    if content is None:
        P(f"the written file is not readable as the documented format: {text!r}", "format/unreadable")
    else:
        if sorted(map(tuple, content["fields"])) != sorted(map(tuple, expected_fields(j))):
            P(f"header fields seen by an independent reader {content['fields']} differ from the instance", "format/fields")
        if sorted(map(tuple, content["alt_names"])) != sorted(map(tuple, j["header"]["alternatives_name"])):
            P("alternative names seen by an independent reader differ", "format/alt_names")
        if j["cls"] == "mat":
            exp = sorted((a_, b_, w) for (a_, b_), w in j["weights"])
            got = sorted((a_, b_, repr(float(w))) for a_, (b_, w) in content["edges"])
            if got != exp:
                P(f"edges seen by an independent reader {got} differ from {exp}", "format/edges")
        else:
            if j["cls"] == "cat" and sorted(map(tuple, content["cat_names"])) != sorted(map(tuple, j["categories_name"])):
                P("category names seen by an independent reader differ", "format/cat_names")
            exp = Counter((m, repr(o)) for o, m in j["multiplicity"])
            got = Counter((m, repr(o)) for m, o in content["ballots"])
            if exp != got:
                P(f"ballots seen by an independent reader {content['ballots']} differ from {j['multiplicity']}", "format/ballots")
            if not content["non_increasing"]:
                P("ballots are not listed by non-increasing multiplicity", "format/order")
    # correspondence with the Lean model
    if mtext != text:
        D(f"model writes {mtext!r}, implementation writes {text!r}", "model/write")
    mp = replies[1]
    if "ok" not in mp:
        D(f"model parse of the written file fails with {mp}", "model/parse")
    else:
        d = iolib.diff(iolib.canon(mp["ok"]), b)
        if d:
            D(f"model and implementation parse the same file differently on {d}", "model/parse")
    return out


def shrink_inst(case):
    j = case["inst"]
    if case.get("unnamed"):
        yield {k: v for k, v in case.items() if k != "unnamed"}
    key = {"ord": "orders", "cat": "preferences"}.get(j["cls"])
    if key:
        items = j["multiplicity"]
        for i in range(len(items)):
            if len(items) > 1:
                j2 = dict(j)
                j2["multiplicity"] = items[:i] + items[i + 1:]
                j2[key] = [o for o, _ in j2["multiplicity"]]
                j2["num_unique"] = len(j2[key])
                h = dict(j["header"])
                h["num_voters"] = sum(m for _, m in j2["multiplicity"])
                j2["header"] = h
                yield dict(case, inst=j2)
    h = j["header"]
    for k in iolib.META:
        if k not in ("file_name", "data_type") and h[k] != "":
            h2 = dict(h)
            h2[k] = ""
            yield dict(case, inst=dict(j, header=h2))
    if any(v != "n" for _, v in h["alternatives_name"]):
        h2 = dict(h)
        h2["alternatives_name"] = [[k, "n"] for k, _ in h["alternatives_name"]]
        yield dict(case, inst=dict(j, header=h2))


class C01(Prop):
    """OrdinalInstance.write -> get_parsed_instance -> write on generated well-formed instances of
    the four types; the written file is also read by the independent Lean reader of the documented
    format; bytes and parsed attributes are compared with the Lean model of write/parse."""

    id = "C01"
    level = "proof"
    design_ref = "§8 C01"
    level_text = ("Lean theorems about the model of OrdinalInstance.write/parse and parse_metadata: parse(write i) "
                  "returns i (type, metadata, names, counts, orders, multiplicities), an independent reader of the "
                  "format sees the same content with non-increasing multiplicities, and write(parse(write i)) = "
                  "write i; key lemma: the ballot regex, modelled as a scanner, inverts the ballot renderer for "
                  "every tie structure. The model's bytes and parse results are compared with the real code's on "
                  "every run")
    level_note = ("Lean kernel + standard axioms; hand-written models of str/regex/sort semantics (lean/PrefVerif/Py), "
                  "whose character tables are compared with CPython exhaustively and the scanners on random strings on "
                  "every run; file system byte-transparent; ASCII digits only")
    theorems = [
        "PrefVerif.C01.scan_render",
        "PrefVerif.C01.roundtrip",
        "PrefVerif.C01.roundtrip_get",
        "PrefVerif.C01.norm_same",
        "PrefVerif.C01.rewrite",
        "PrefVerif.C01.independent_reader",
    ]
    rule = ("random well-formed ordinal instances (soc/soi/toc/toi; ids 1..m, shifted or sparse up to 3 digits; ties "
            "first/last/single class; multiplicities up to 120 with ties in the sort key; names and metadata over an "
            "alphabet with ':', ',', braces, '#', non-ASCII, '__1', empty strings); non-trivial = at least 2 orders")
    budget = {"quick": 300, "thorough": 10000}
    anchors = [("preflibtools.instances.preflibinstance.ordinal", "OrdinalInstance.parse"),
               ("preflibtools.instances.preflibinstance.ordinal", "OrdinalInstance.write"),
               ("preflibtools.instances.preflibinstance.instance", "PrefLibInstance.parse_metadata"),
               ("preflibtools.instances.preflibinstance.instance", "PrefLibInstance.write_metadata"),
               ("preflibtools.instances.preflibinstance.instance", "PrefLibInstance.parse_file"),
               ("preflibtools.instances.preflibinstance.instance", "PrefLibInstance.__init__"),
               ("preflibtools.instances.preflibinstance.utils", "get_parsed_instance")]
    cls_gen = staticmethod(iolib.gen_ordinal)
    selftest_done = False

    def generate(self, rng, n, deep=False):
        yield {"kind": "selftest", "seed": rng.randint(0, 10 ** 6)}
        for _ in range(n):
            iolib._exotic[0] = True          # fields may contain splitlines()-only boundaries: legal in a file
            try:
                inst = self.cls_gen(rng)
            finally:
                iolib._exotic[0] = False
            c = {"kind": "roundtrip", "inst": inst}
            if rng.random() < 0.1:
                c["unnamed"] = True
            yield c

    def run_impl(self, case):
        if case["kind"] == "selftest":
            import random
            errs = pytables.check_tables() + pytables.check_prims(random.Random(case["seed"]), 150)
            return {"errors": errs[:10]}
        self.count("type:" + case["inst"]["header"]["data_type"])
        return roundtrip_case(self, case)

    def requests(self, case, obs):
        if case["kind"] == "selftest":
            return []
        return roundtrip_requests(case, obs)

    def nontrivial_key(self, case, obs):
        if case["kind"] == "selftest":
            return None
        j = case["inst"]
        return repr(j) if len(j.get("multiplicity", j.get("weights", []))) > 1 else None

    def judge(self, case, obs, replies):
        if case["kind"] == "selftest":
            return [Problem("disagreement", case, "Python-semantics layer differs from CPython: " + e, "py-layer")
                    for e in obs["errors"][:3]]
        return judge_roundtrip(self, case, obs, replies)

    def shrink_candidates(self, case):
        if case["kind"] == "selftest":
            return []
        return shrink_inst(case)


PROP = C01
