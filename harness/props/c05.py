from harness.core import Prop, Problem, call
from harness import gen

RECS = ["ci", "cei", "vi", "vei", "wsc", "de", "part", "part2"]
FUN = {"ci": "is_candidate_interval", "cei": "is_candidate_extremal_interval", "vi": "is_voter_interval",
       "vei": "is_voter_extremal_interval", "wsc": "is_weakly_single_crossing", "de": "is_dichotomous_euclidean",
       "part": "is_part", "part2": "is_2_part"}

TUCKER_IV = [[1, 1, 0, 0, 0, 0], [0, 0, 1, 1, 0, 0], [0, 0, 0, 0, 1, 1], [0, 1, 0, 1, 0, 1]]
TUCKER_V = [[1, 1, 0, 0, 0], [0, 0, 1, 1, 0], [1, 1, 1, 1, 0], [1, 0, 0, 1, 1]]


def tucker_cycle(k):
    """M_I(k): rows {i,i+1} and {1,k+2} over k+2 columns"""
    n = k + 2
    rows = [[1 if c in (i, i + 1) else 0 for c in range(n)] for i in range(n - 1)]
    rows.append([1 if c in (0, n - 1) else 0 for c in range(n)])
    return rows


def embed(rng, core, extra_rows, extra_cols):
    """embed a non-C1P core into a larger matrix (still non-C1P), permuted, with duplicated / zero rows and columns"""
    nr, nc = len(core), len(core[0])
    m = [row + [rng.randint(0, 1) if rng.random() < 0.5 else 0 for _ in range(extra_cols)] for row in core]
    for _ in range(extra_rows):
        r = rng.random()
        if r < 0.3:
            m.append([0] * (nc + extra_cols))
        elif r < 0.6:
            m.append(list(rng.choice(m)))
        else:
            m.append([rng.randint(0, 1) for _ in range(nc + extra_cols)])
    cols = list(range(nc + extra_cols))
    rng.shuffle(cols)
    m = [[row[c] for c in cols] for row in m]
    rng.shuffle(m)
    return m


def planted_c1p(rng, nr, nc):
    order = list(range(nc))
    rng.shuffle(order)
    m = []
    for _ in range(nr):
        if rng.random() < 0.15:
            m.append([0] * nc)
            continue
        a = rng.randrange(nc)
        b = rng.randrange(a, nc)
        s = set(order[a:b + 1])
        m.append([1 if c in s else 0 for c in range(nc)])
    if rng.random() < 0.5 and m:
        m.append(list(rng.choice(m)))
    return m


class C05(Prop):
    """the eight approval-domain recognisers and solve_consecutive_ones / isC1P: verdicts vs the Lean
    brute-force deciders (small), planted consecutive-ones matrices and embedded Tucker obstructions
    (large), every returned witness validated by the Lean checkers; Lean model of the glue and of the
    reductions run with a brute-force solver."""

    id = "C05"
    level = "proof"
    design_ref = "§8 C05"
    level_text = ("Lean theorems: witness checkers and brute-force deciders for CI / CEI / VI / VEI / WSC / DE / PART / "
                  "2PART and C1P are correct; the model of solve_consecutive_ones' glue (grouping identical columns, "
                  "expanding groups) and of each reduction (complement stacking, transpose, pair rows, positions and "
                  "radii, distinct approval sets) is sound and complete for every solver meeting the stated contract; "
                  "and the statement-level model of the PQ-tree itself (reorder_sets with P/Q.set_contiguous, flatten, "
                  "simplify, CPython set iteration order) is proved to meet that contract — a returned order is a "
                  "rearrangement with every element's sets consecutive, and Impossible is raised only when none "
                  "exists — so isC1P of the model equals the consecutive-ones specification for every matrix. "
                  "The model is compared with the real functions (verdict and exact column order) on every run")
    level_note = ("Lean kernel + standard axioms; hand-written models of the glue, the reductions and the PQ-tree "
                  "(consecutive_ones.py), tied to the code by differential testing; CPython int-set iteration order "
                  "is modelled (PySet) and only affects which valid order is returned")
    theorems = [
        "PrefVerif.C05.contiguous_iff",
        "PrefVerif.C05.mem_perms",
        "PrefVerif.C05.c1pWitness_iff",
        "PrefVerif.C05.bruteC1P_iff",
        "PrefVerif.C05.solveC1_correct",
        "PrefVerif.C05.candidateInterval_correct",
        "PrefVerif.C05.candidateExtremalInterval_correct",
        "PrefVerif.C05.voterInterval_correct",
        "PrefVerif.C05.voterExtremalInterval_correct",
        "PrefVerif.C05.weaklySingleCrossing_correct",
        "PrefVerif.C05.dichotomousEuclidean_correct",
        "PrefVerif.C05.part_correct",
        "PrefVerif.C05.part2_correct",
        "PrefVerif.C05PQ.reorderSets_perm",
        "PrefVerif.C05PQ.reorderSets_sound",
        "PrefVerif.C05PQ.reorderSets_complete",
        "PrefVerif.C05PQ.reorderSets_solverOK",
        "PrefVerif.C05PQ.solveConsecutiveOnes_correct",
        "PrefVerif.C05PQ.solveConsecutiveOnes_witness",
        "PrefVerif.C05PQ.reorderSets_general",
        "PrefVerif.C05PQ.reorderSetsE_error",
        "PrefVerif.C05PQ.isC1P_iff",
    ]
    rule = ("random approval profiles (<= 6 alternatives, <= 6 ballots incl. empty, full and repeated ballots, "
            "unapproved alternatives) against brute force; partition profiles with one / two / more parts; 0/1 "
            "matrices <= 7x7 against brute force; planted C1P matrices up to 40x40 and Tucker obstructions M_I(k), "
            "M_IV, M_V embedded under random permutations with duplicated and zero rows/columns; non-trivial = >= 2 "
            "distinct non-empty rows")
    budget = {"quick": 300, "thorough": 10000}
    anchors = [("preflibtools.properties.subdomains.consecutive_ones", n) for n in
               ("solve_consecutive_ones", "reorder_sets", "isC1P", "P.set_contiguous", "Q.set_contiguous", "_flatten")] + \
              [("preflibtools.properties.subdomains.dichotomous.interval", n) for n in
               ("instance_to_ci_matrix", "is_candidate_interval", "is_candidate_extremal_interval",
                "is_voter_interval", "is_voter_extremal_interval")] + \
              [("preflibtools.properties.subdomains.dichotomous.singlecrossing", "is_weakly_single_crossing"),
               ("preflibtools.properties.subdomains.dichotomous.euclidean", "is_dichotomous_euclidean"),
               ("preflibtools.properties.subdomains.dichotomous.partition", "is_part"),
               ("preflibtools.properties.subdomains.dichotomous.partition", "is_2_part")]

    def corpus(self):
        return [
            {"kind": "profile", "alts": [1, 6], "approved": [[1], [6]], "small": True},
            {"kind": "matrix", "matrix": [[1, 1, 1]], "ncols": 3, "small": True, "planted": None},
            {"kind": "matrix", "matrix": [[1, 1, 1], [1, 1, 1]], "ncols": 3, "small": True, "planted": None},
        ] + super().corpus()

    def generate(self, rng, n, deep=False):
        # many small matrices against the brute force: PQ-tree slips show on well under 1 % of them
        for i in range(3 * n):
            nr, nc = rng.randint(3, 5), rng.randint(5, 7)
            dens = rng.choice([0.35, 0.5, 0.65])
            mat = [[1 if rng.random() < dens else 0 for _ in range(nc)] for _ in range(nr)]
            yield {"kind": "matrix", "matrix": mat, "ncols": nc, "small": True, "planted": None}
        for i in range(n):
            r = rng.random()
            if r < 0.4:
                m = rng.randint(1, 6)
                alts = gen.alt_ids(rng, m)
                nb = rng.randint(1, 6)
                style = rng.choice(["random", "random", "interval", "part", "part2"])
                approved = []
                if style in ("random", "interval"):
                    order = gen.perm(rng, alts)
                    for _ in range(nb):
                        if approved and rng.random() < 0.2:
                            approved.append(list(rng.choice(approved)))
                        elif style == "interval" and rng.random() < 0.8:
                            a = rng.randrange(m)
                            b = rng.randrange(a, m)
                            approved.append(gen.perm(rng, order[a:b + 1]))
                        else:
                            approved.append(gen.perm(rng, alts)[: rng.randint(0, m)])
                else:
                    k = rng.randint(1, min(3, m)) if style == "part" else rng.randint(1, min(2, m))
                    shuffled = gen.perm(rng, alts)
                    cut = sorted(rng.sample(range(1, m), k - 1)) if m > 1 and k > 1 else []
                    blocks = [shuffled[a:b] for a, b in zip([0] + cut, cut + [m])]
                    if style == "part2" and rng.random() < 0.3 and len(blocks[-1]) > 1:
                        blocks[-1] = blocks[-1][:-1]   # two parts not covering everything
                    if rng.random() < 0.15 and len(blocks) > 1 and len(blocks[0]) > 0:
                        blocks[1] = blocks[1] + [blocks[0][0]]   # overlap: not a partition
                    for _ in range(nb):
                        approved.append(gen.perm(rng, rng.choice(blocks)))
                    for b in blocks:
                        if rng.random() < 0.7:
                            approved.append(list(b))
                yield {"kind": "profile", "alts": gen.perm(rng, alts) if rng.random() < 0.5 else alts,
                       "approved": approved, "small": len(approved) <= 7}
            elif r < 0.7:
                nr, nc = rng.randint(1, 6), rng.randint(1, 7)
                dens = rng.choice([0.2, 0.4, 0.6])
                mat = [[1 if rng.random() < dens else 0 for _ in range(nc)] for _ in range(nr)]
                if rng.random() < 0.3:
                    mat.append(list(rng.choice(mat)))
                if rng.random() < 0.3:
                    c = rng.randrange(nc)
                    mat = [row + [row[c]] for row in mat]
                    nc += 1
                yield {"kind": "matrix", "matrix": mat, "ncols": nc, "small": nc <= 7, "planted": None}
            elif r < 0.85:
                nr, nc = rng.choice([(8, 8), (15, 12), (25, 30), (40, 40)])
                mat = planted_c1p(rng, nr, nc)
                planted = True
                if rng.random() < 0.4:
                    # flip a few entries: status unknown to the generator, decided by the verified PQ-tree model
                    for _ in range(rng.randint(1, 3)):
                        i, j = rng.randrange(len(mat)), rng.randrange(nc)
                        mat[i][j] = 1 - mat[i][j]
                    planted = None
                yield {"kind": "matrix", "matrix": mat, "ncols": nc, "small": False, "planted": planted}
            else:
                core = rng.choice([TUCKER_IV, TUCKER_V, tucker_cycle(rng.randint(1, 6))])
                big = rng.random() < 0.6
                mat = embed(rng, core, rng.randint(0, 10) if big else rng.randint(0, 1),
                            rng.randint(0, 12) if big else 0)
                yield {"kind": "matrix", "matrix": mat, "ncols": len(mat[0]), "small": len(mat[0]) <= 7, "planted": False}

    # ---------------- implementation
    def _instance(self, case):
        from preflibtools.instances import CategoricalInstance
        inst = CategoricalInstance()
        alts = case["alts"]
        inst.alternatives_name = {a: "Alternative " + str(a) for a in alts}
        inst.num_alternatives = len(alts)
        inst.num_categories = 2
        inst.categories_name = {1: "Yes", 2: "No"}
        for app in case["approved"]:
            b = (tuple(app), tuple(a for a in alts if a not in app))
            inst.preferences.append(b)
            inst.multiplicity[b] = inst.multiplicity.get(b, 0) + 1
        inst.num_voters = len(case["approved"])
        inst.num_unique_preferences = len(set(inst.preferences))
        return inst

    @staticmethod
    def _ints(l):
        return [int(x) for x in l]

    def run_impl(self, case):
        import numpy as np
        from preflibtools.properties.subdomains import dichotomous as D
        from preflibtools.properties.subdomains import consecutive_ones as C
        if case["kind"] == "matrix":
            self.count("matrix:" + str(case["planted"]))
            M = np.array(case["matrix"], dtype=int).reshape(len(case["matrix"]), case["ncols"])
            r = call(C.solve_consecutive_ones, M)
            if r[0] == "ok":
                r = ("ok", [bool(r[1][0]), self._ints(r[1][1]) if r[1][1] is not None else None])
            q = call(C.isC1P, [list(row) for row in case["matrix"]])
            return {"solve": r, "isC1P": q if q[0] != "ok" else ("ok", bool(q[1]))}
        self.count("profile")
        obs = {}
        for k in RECS:
            inst = self._instance(case)
            r = call(getattr(D, FUN[k]), inst)
            if r[0] == "ok":
                v, w = r[1]
                try:
                    if not v:
                        w = None
                    elif k in ("ci", "cei", "vi", "vei", "wsc"):
                        w = self._ints(w)
                    elif k == "de":
                        vp, ap = w
                        w = {"voters": [[int(round(2 * vp[i][0])), int(round(2 * vp[i][1]))] for i in range(len(case["approved"]))],
                             "exact": all(float(2 * x).is_integer() for p in vp.values() for x in p),
                             "alts": [[int(a), int(p)] for a, p in ap.items()]}
                    else:
                        w = [sorted(int(x) for x in s) for s in w]
                except Exception as e:  # noqa
                    w = "malformed:" + type(e).__name__
                r = ("ok", [bool(v), w])
            obs[k] = r
        return obs

    def requests(self, case, obs):
        if case["kind"] == "matrix":
            d = {"op": "c05.matrix", "matrix": case["matrix"], "ncols": case["ncols"], "brute": case["small"]}
            s = obs["solve"]
            if s[0] == "ok" and s[1][0] and isinstance(s[1][1], list):
                d["witness"] = s[1][1]
            # the Lean model of the PQ-tree itself (proved sound and complete: C05PQ)
            return [d, {"op": "pq.solve", "matrix": case["matrix"], "ncols": case["ncols"]}]
        w = {}
        for k in ("ci", "cei", "vi", "vei", "wsc"):
            r = obs[k]
            if r[0] == "ok" and r[1][0] and isinstance(r[1][1], list):
                w[k] = r[1][1]
        r = obs["de"]
        if r[0] == "ok" and r[1][0] and isinstance(r[1][1], dict):
            w["de_voters"] = r[1][1]["voters"]
            w["de_alts"] = r[1][1]["alts"]
        for k, key in (("part", "parts"), ("part2", "parts2")):
            r = obs[k]
            if r[0] == "ok" and r[1][0] and isinstance(r[1][1], list):
                w[key] = r[1][1]
        return [{"op": "c05.profile", "alts": case["alts"], "approved": case["approved"], "brute": case["small"],
                 "witnesses": w}]

    def nontrivial_key(self, case, obs):
        rows = case["matrix"] if case["kind"] == "matrix" else case["approved"]
        distinct = {tuple(r) for r in rows if any(r)}
        return repr(case) if len(distinct) >= 2 else None

    def judge(self, case, obs, replies):
        rep = replies[0]
        out = []
        P = lambda what, site: out.append(Problem("violation", case, what, site))
        D_ = lambda what, site: out.append(Problem("disagreement", case, what, site))
        if case["kind"] == "matrix":
            pq = replies[1]
            truth = rep["c1p"] if rep["c1p"] is not None else case["planted"]
            if truth is None:
                truth = pq["isC1P"]        # decided by the verified PQ-tree model (C05PQ.isC1P_iff)
                self.count("truth-from-verified-pq-model")
            elif pq["isC1P"] != truth:
                D_(f"PQ-tree model isC1P = {pq['isC1P']}, brute force / planted status = {truth}", "model/pq-spec")
            s, q = obs["solve"], obs["isC1P"]
            if s[0] == "ok":
                if (pq["result"] is not None) != s[1][0]:
                    D_(f"PQ-tree model answers {pq['result'] is not None}, solve_consecutive_ones answers {s[1][0]}",
                       "model/pq-verdict")
                elif s[1][0]:
                    self.count("pq-order:" + ("identical" if pq["result"] == s[1][1] else "drift"))
            if s[0] != "ok":
                P(f"solve_consecutive_ones raised {s[1]}", "solve/call")
            else:
                v, w = s[1]
                if truth is not None and v != truth:
                    P(f"solve_consecutive_ones answers {v}, the matrix {'has' if truth else 'does not have'} the "
                      "consecutive ones property", "solve/verdict")
                if v and rep["witnessOk"] is not True:
                    P(f"returned column order {w} is not a permutation of all columns making every row's ones consecutive",
                      "solve/witness")
                if rep["model"] is not None and rep["model"] != v:
                    D_(f"model {rep['model']} vs implementation {v}", "model/solve")
            if q[0] != "ok":
                P(f"isC1P raised {q[1]}", "isC1P/call")
            elif truth is not None and q[1] != truth:
                P(f"isC1P answers {q[1]}, truth is {truth}", "isC1P/verdict")
            if rep["modelOk"] is False:
                D_("model returned an invalid order", "model/spec")
            return out
        nonempty = all(len(a) > 0 for a in case["approved"])
        for k in RECS:
            r = obs[k]
            if k in ("part", "part2") and not nonempty:
                continue        # the partition domains are stated for non-empty approval sets
            if r[0] != "ok":
                P(f"{FUN[k]} raised {r[1]}", k + "/call")
                continue
            v, w = r[1]
            truth = rep["ci"] if k == "de" else rep[k]
            if truth is not None and v != truth:
                P(f"{FUN[k]} answers {v}; the profile is {'in' if truth else 'not in'} the domain", k + "/verdict")
            wk = {"ci": "ciW", "cei": "ceiW", "vi": "viW", "vei": "veiW", "wsc": "wscW", "de": "deW",
                  "part": "partW", "part2": "part2W"}[k]
            if v:
                ok = rep[wk] is True and not (k == "de" and isinstance(w, dict) and not w["exact"])
                if not ok:
                    P(f"{FUN[k]} returned a witness that does not have the defining property: {w}", k + "/witness")
            mk = {"ci": "mCI", "cei": "mCEI", "vi": "mVI", "vei": "mVEI", "wsc": "mWSC", "de": "mCI"}.get(k)
            if mk and rep[mk] is not None and rep[mk] != v:
                D_(f"model {rep[mk]} vs implementation {v} for {k}", "model/" + k)
            if k == "part" and (rep["mPart"] is not None) != v:
                D_("model is_part differs", "model/part")
            if k == "part2" and (rep["mPart2"] is not None) != v:
                D_("model is_2_part differs", "model/part2")
        return out

    def shrink_candidates(self, case):
        if case["kind"] == "matrix":
            m = case["matrix"]
            for i in range(len(m)):
                if len(m) > 1:
                    yield dict(case, matrix=m[:i] + m[i + 1:], planted=None, small=case["ncols"] <= 7)
            if case["ncols"] > 1:
                for c in range(case["ncols"]):
                    yield dict(case, matrix=[row[:c] + row[c + 1:] for row in m], ncols=case["ncols"] - 1, planted=None,
                               small=case["ncols"] - 1 <= 7)
        else:
            ap = case["approved"]
            for i in range(len(ap)):
                if len(ap) > 1:
                    yield dict(case, approved=ap[:i] + ap[i + 1:], small=True if len(ap) - 1 <= 7 else case["small"])
            for x in case["alts"]:
                if len(case["alts"]) > 1:
                    yield dict(case, alts=[a for a in case["alts"] if a != x],
                               approved=[[a for a in s if a != x] for s in ap])


PROP = C05
