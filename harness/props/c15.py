import random

from harness.core import Prop, Problem, call
from harness import gen
from harness.props.c11 import sp_votes
from harness.props.c04 import sc_walk
from harness.props.c13 import tree_votes


def relabel_order(o, s):
    return [[s[a] for a in c] for c in o]


class C15(Prop):
    """metamorphic check over all exact deciders, optimisers, winner rules and score tables: every
    instance is re-run under random bijective relabellings of the alternatives combined with a shuffled
    storage order (of ballots and of alternatives_name); verdicts and optima must be equal, winner sets
    and tables must be mapped through the bijection.  Sizes go far beyond the brute-force oracles."""

    id = "C15"
    level = "other"
    design_ref = "§8 C15"
    level_text = ("Invariance is a corollary wherever a function is proved equal to a specification built from "
                  "multisets of ballots and sets of alternatives (all winner rules, score tables, has_condorcet, "
                  "distances, partition and interval reductions, the axis test: C02, C04-C07, C11, C14, C20 — e.g. "
                  "scores_perm, prefCount_perm, plurality_regroup, regroup), and it is proved outright for the verdicts "
                  "of the recognisers whose models are exact: is_single_peaked (C15x.elo_relabel / elo_perm), both "
                  "single-crossing functions (sc_*, scConflict_*), is_single_peaked_on_tree (sptree_*) and the PQ-tree "
                  "isC1P under row and column permutations (isC1P_rows_perm / isC1P_columns_perm), and for the number "
                  "of alternatives k_alternative_deletion deletes (C15y: it equals the specification's minimum). For the "
                  "ILP optimisers (CBC), the partition functions and the 1-Euclidean recogniser (C12 ILP, C18, C19) "
                  "invariance is tested metamorphically here, at sizes far beyond brute force, not proved")
    level_note = ("metamorphic differential testing on the real code; the Lean side contributes the permutation- and "
                  "regrouping-invariance theorems of the specifications; D17c (the verdict of is_one_euclidean depended on the "
                  "storage order) was found by this check and is repaired (fix c5078a8)")
    technique = ("Lean 4 invariance theorems (specifications; verdicts of the recognisers proved exact; value of the dynamic "
                 "programme) + metamorphic testing of the real code under relabelling / storage permutation / API regrouping")
    theorems = [
        "PrefVerif.C06.scores_perm",
        "PrefVerif.C06.plurality_regroup",
        "PrefVerif.C07.prefCount_perm",
        "PrefVerif.C02.regroup",
        "PrefVerif.C04.bruteSC_iff",
        "PrefVerif.C04.scWitness_iff",
        "PrefVerif.C15.contiguous_relabel",
        "PrefVerif.C15.spOnAxis_relabel",
        "PrefVerif.C15.bruteSP_relabel",
        "PrefVerif.C15.kt_relabel",
        "PrefVerif.C15.scSeq_relabel",
        "PrefVerif.C15.bruteSC_relabel",
        "PrefVerif.C15.prefCount_relabel",
        "PrefVerif.C15.condorcet_relabel",
        "PrefVerif.C15.scores_relabel",
        "PrefVerif.C15.topCount_relabel_cex",
        "PrefVerif.C15.argmaxSet_relabel",
        "PrefVerif.C15.spOnAxis_perm",
        "PrefVerif.C15.bruteSP_perm",
        "PrefVerif.C15.bruteSC_perm",
        "PrefVerif.C15.condorcet_perm",
        "PrefVerif.C15.thresholdWinners_perm",
        "PrefVerif.C15.approval_perm",
        "PrefVerif.C15x.elo_defined",
        "PrefVerif.C15x.elo_relabel",
        "PrefVerif.C15x.elo_perm",
        "PrefVerif.C15x.sc_relabel",
        "PrefVerif.C15x.sc_perm",
        "PrefVerif.C15x.scConflict_relabel",
        "PrefVerif.C15x.scConflict_perm",
        "PrefVerif.C15x.sptree_relabel",
        "PrefVerif.C15x.sptree_perm",
        "PrefVerif.C15x.isC1P_rows_perm",
        "PrefVerif.C15x.isC1P_columns_perm",
        "PrefVerif.C15y.deletion_value_eq_min",
        "PrefVerif.C15y.deletion_value_relabel",
        "PrefVerif.C15y.deletion_value_perm",
    ]
    rule = ("ordinal profiles (planted single-peaked / single-crossing / tree / Euclidean and random; m up to 40, n up "
            "to 300 for the polynomial recognisers, m <= 6 for ILP and partition optimisers) and approval profiles (up "
            "to 30x30); 3 random relabellings x storage shuffles each; non-trivial = >= 2 ballots")
    budget = {"quick": 60, "thorough": 600}
    anchors = [("preflibtools.properties.subdomains.ordinal.singlecrossing", "is_single_crossing"),
               ("preflibtools.properties.subdomains.ordinal.singlepeaked.singlepeakedness", "is_single_peaked"),
               ("preflibtools.properties.subdomains.ordinal.euclidean", "is_one_euclidean"),
               ("preflibtools.properties.subdomains.ordinal.singlepeaked.single_peaked_tree", "is_single_peaked_on_tree"),
               ("preflibtools.properties.subdomains.consecutive_ones", "reorder_sets"),
               ("preflibtools.properties.subdomains.dichotomous.interval", "instance_to_ci_matrix"),
               ("preflibtools.aggregation.singlewinner", "plurality_winner"),
               ("preflibtools.aggregation.singlewinner", "copeland_winner"),
               ("preflibtools.properties.pairwisecomparisons", "pairwise_scores")]

    def generate(self, rng, n, deep=False):
        for i in range(n):
            r = i % 6
            if r == 5:
                m, nb = rng.choice([(4, 5), (8, 10), (15, 20), (30, 30)])
                alts = list(range(1, m + 1))
                order = gen.perm(rng, alts)
                approved = []
                for _ in range(nb):
                    if rng.random() < 0.7:
                        a = rng.randrange(m)
                        b = rng.randrange(a, m)
                        approved.append(order[a:b + 1])
                    else:
                        approved.append(gen.perm(rng, alts)[: rng.randint(0, m)])
                yield {"kind": "approval", "alts": alts, "approved": approved, "seed": rng.randint(0, 10 ** 6)}
                continue
            small = r == 4
            m = rng.choice([3, 4, 5, 6]) if small else rng.choice([4, 6, 9, 15, 25, 40])
            alts = list(range(1, m + 1))
            style = rng.choice(["sp", "sc", "tree", "random", "sp-perturbed", "sc-perturbed", "sc-perturbed"])
            nn = rng.randint(2, 6) if small else rng.choice([3, 8, 20, 60, 300])
            if style in ("sp", "sp-perturbed"):
                votes = [[c[0] for c in v] for v in sp_votes(rng, gen.perm(rng, alts), nn)]
                if style == "sp-perturbed":
                    k = rng.randrange(len(votes))
                    a, b = rng.sample(range(m), 2)
                    votes[k][a], votes[k][b] = votes[k][b], votes[k][a]
            elif style in ("sc", "sc-perturbed"):
                votes = [list(o) for o in sc_walk(rng, alts, m * (m - 1) // 2)][:nn]
                if style == "sc-perturbed" and len(votes) >= 3:
                    # a pair that swaps and later swaps back: locally plausible, globally not single-crossing
                    k = rng.randrange(1, len(votes))
                    v = list(votes[k])
                    i = rng.randrange(m - 1)
                    v[i], v[i + 1] = v[i + 1], v[i]
                    votes[k] = v
                rng.shuffle(votes)
            elif style == "tree":
                votes = tree_votes(rng, alts, min(nn, 20))
            else:
                votes = [gen.perm(rng, alts) for _ in range(min(nn, 12))]
            prof = {}
            for v in votes:
                prof[tuple(v)] = prof.get(tuple(v), 0) + 1
            yield {"kind": "ordinal", "small": small, "alts": alts, "profile": [[list(o), c] for o, c in prof.items()],
                   "seed": rng.randint(0, 10 ** 6)}

    # ---------------- evaluation of one instance
    @staticmethod
    def _via_api(alts, profile, rng):
        """the same multiset of ballots added through the public API, regrouped into random batches"""
        from preflibtools.instances import OrdinalInstance
        votes = [tuple((a,) for a in o) for o, c in profile for _ in range(c)]
        rng.shuffle(votes)
        inst = OrdinalInstance()
        i = 0
        import numpy as np
        while i < len(votes):
            j = min(len(votes), i + rng.choice([1, 2, 3, 5, 20, 100]))
            batch = votes[i:j]
            via = rng.choice(["order_list", "order_list", "order", "order_array", "vote_map"])
            if via == "order_list":
                inst.append_order_list(batch)
            elif via == "order":
                for v in batch:
                    inst.append_order(tuple(c[0] for c in v))
            elif via == "order_array":
                inst.append_order_array(np.array([[c[0] for c in v] for v in batch], dtype=object))
            else:
                vm = {}
                for v in batch:
                    vm[v] = vm.get(v, 0) + 1
                inst.append_vote_map(vm)
            i = j
        return inst

    def _eval_ordinal(self, alts, profile, small, api_rng=None):
        from preflibtools.properties.subdomains.ordinal.singlepeaked import singlepeakedness as S
        from preflibtools.properties.subdomains.ordinal import singlecrossing as SC
        from preflibtools.properties.subdomains.ordinal.singlepeaked.single_peaked_tree import is_single_peaked_on_tree
        from preflibtools.properties.subdomains.ordinal.euclidean import is_one_euclidean
        from preflibtools.properties.subdomains.ordinal.singlepeaked.k_alternative_deletion import k_alternative_deletion
        from preflibtools.properties.subdomains.ordinal.singlepeaked import k_alternative_partition as K
        from preflibtools.properties import pairwisecomparisons as PC
        from preflibtools.aggregation import singlewinner as SW
        prof = [(tuple((a,) for a in o), c) for o, c in profile]
        if api_rng is not None:
            import copy
            built = self._via_api(alts, profile, api_rng)
            mk = lambda: copy.deepcopy(built)
        else:
            mk = lambda: gen.make_ordinal(prof, alts=alts, data_type="soc")
        n, m = len(profile), len(alts)
        res = {}
        v = lambda r: r if r[0] != "ok" else ("ok", bool(r[1][0]) if isinstance(r[1], tuple) else bool(r[1]))
        res["is_single_peaked"] = v(call(S.is_single_peaked, mk()))
        if m <= 15 and n * m <= 200:      # the PQ-tree port is slow on many rows
            res["is_single_peaked_pq_tree"] = v(call(S.is_single_peaked_pq_tree, mk()))
        res["is_single_crossing"] = v(call(SC.is_single_crossing, mk()))
        if n <= 12:
            res["is_single_crossing_conflict_sets"] = v(call(SC.is_single_crossing_conflict_sets, mk()))
        res["is_single_peaked_on_tree"] = v(call(is_single_peaked_on_tree, mk()))
        if m <= 8 and n <= 8:
            res["is_one_euclidean"] = v(call(is_one_euclidean, mk(), limit=60))
        if m <= 15:
            r = call(k_alternative_deletion, mk(), limit=60)
            res["k_alternative_deletion"] = r if r[0] != "ok" else ("ok", len(r[1][1]))
        if small:
            r = call(S.is_single_peaked_ILP, mk(), limit=60)
            res["is_single_peaked_ILP"] = r if r[0] != "ok" else ("ok", bool(r[1][0]))
            for f in (S.approx_SP_voter_deletion_ILP, S.approx_SP_alternative_deletion_ILP):
                r = call(f, mk(), limit=120)
                res[f.__name__] = r if r[0] != "ok" else ("ok", round(r[1][0]) if r[1][0] is not None else None)
            r = call(K.k_alternative_partition_brut_force, mk(), m, limit=60)
            res["k_alternative_partition_brut_force"] = r if r[0] != "ok" else ("ok", len(r[1]) if r[1] is not None else None)
        for wc in (False, True):
            res["has_condorcet/" + str(wc)] = v(call(PC.has_condorcet, mk(), weak_condorcet=wc))
        sets = {}
        for f in ("plurality_winner", "veto_winner", "borda_winner", "copeland_winner", "fallback_voting_winner",
                  "bucklin_voting_winner"):
            r = call(getattr(SW, f), mk())
            sets[f] = r if r[0] != "ok" else ("ok", sorted(int(a) for a in r[1]))
        r = call(SW.k_approval_winner, mk(), 2)
        sets["k_approval_winner"] = r if r[0] != "ok" else ("ok", sorted(int(a) for a in r[1]))
        tables = {}
        if m <= 15:
            for f in ("pairwise_scores", "copeland_scores"):
                r = call(getattr(PC, f), mk())
                tables[f] = r if r[0] != "ok" else ("ok", {(int(a), int(b)): int(x) for a, row in r[1].items() for b, x in row.items()})
            r = call(PC.borda_scores, mk())
            tables["borda_scores"] = r if r[0] != "ok" else ("ok", {int(a): int(x) for a, x in r[1].items()})
        return res, sets, tables

    def _eval_approval(self, alts, approved):
        from harness.props.c05 import C05, RECS, FUN
        from preflibtools.properties.subdomains import dichotomous as D
        helper = C05()
        res = {}
        for k in RECS:
            if k in ("part", "part2") and any(len(a) == 0 for a in approved):
                continue
            inst = helper._instance({"alts": alts, "approved": approved})
            r = call(getattr(D, FUN[k]), inst)
            res[FUN[k]] = r if r[0] != "ok" else ("ok", bool(r[1][0]))
        return res

    def run_impl(self, case):
        rng = random.Random(case["seed"])
        alts = case["alts"]
        m = len(alts)
        self.count(case["kind"])
        variants = []
        for _ in range(3):
            if case["kind"] == "ordinal" and m <= 8:
                img = gen.perm(rng, alts)           # 1-Euclidean needs alternatives 1..m
            else:
                img = rng.sample(range(1, 5 * m + 10), m)
            s = dict(zip(alts, img))
            variants.append(s)
        if case["kind"] == "approval":
            base = self._eval_approval(alts, case["approved"])
            out = []
            for s in variants:
                ap = [gen.perm(rng, [s[a] for a in b]) for b in case["approved"]]
                rng.shuffle(ap)
                out.append((s, self._eval_approval(gen.perm(rng, [s[a] for a in alts]), ap)))
            return {"base": base, "variants": out}
        base = self._eval_ordinal(alts, case["profile"], case["small"])
        out = []
        for k, s in enumerate(variants):
            prof = [[[s[a] for a in o], c] for o, c in case["profile"]]
            rng.shuffle(prof)
            # every other variant is built through the append_* entry points in random batches (a different history)
            out.append((s, self._eval_ordinal(gen.perm(rng, [s[a] for a in alts]), prof, case["small"],
                                              api_rng=rng if k % 2 == 0 else None)))
        return {"base": base, "variants": out}

    def requests(self, case, obs):
        return []

    def nontrivial_key(self, case, obs):
        return repr(case)

    def finding_predicates(self):
        return {"C15/one-euclidean-storage-order": lambda p: p.site == "is_one_euclidean"}

    def judge(self, case, obs, replies):
        out = []
        if case["kind"] == "approval":
            base = obs["base"]
            for s, var in obs["variants"]:
                for f, r in base.items():
                    if var.get(f) != r:
                        out.append(Problem("violation", case, f"{f}: {r} on the instance, {var.get(f)} after relabelling "
                                           f"{s} and shuffling the ballots", f))
            return out
        res, sets, tables = obs["base"]
        for s, (res2, sets2, tables2) in obs["variants"]:
            for f, r in res.items():
                if res2.get(f) != r:
                    out.append(Problem("violation", case, f"{f}: {r} on the instance, {res2.get(f)} after relabelling {s} "
                                       "and shuffling the storage order", f))
            for f, r in sets.items():
                exp = r if r[0] != "ok" else ("ok", sorted(s[a] for a in r[1]))
                if sets2.get(f) != exp:
                    out.append(Problem("violation", case, f"{f}: winner set {r} is not mapped through the relabelling "
                                       f"(got {sets2.get(f)}, expected {exp})", f))
            for f, r in tables.items():
                if r[0] != "ok":
                    exp = r
                elif f == "borda_scores":
                    exp = ("ok", {s[a]: x for a, x in r[1].items()})
                else:
                    exp = ("ok", {(s[a], s[b]): x for (a, b), x in r[1].items()})
                if tables2.get(f) != exp:
                    out.append(Problem("violation", case, f"{f}: table is not mapped through the relabelling", f))
        return out[:5]

    def shrink_candidates(self, case):
        if case["kind"] == "approval":
            ap = case["approved"]
            for i in range(len(ap)):
                if len(ap) > 1:
                    yield dict(case, approved=ap[:i] + ap[i + 1:])
            return
        prof = case["profile"]
        for i in range(len(prof)):
            if len(prof) > 1:
                yield dict(case, profile=prof[:i] + prof[i + 1:])
        for i in range(len(prof)):
            if prof[i][1] > 1:
                p2 = [list(x) for x in prof]
                p2[i][1] = 1
                yield dict(case, profile=p2)
        m = len(case["alts"])
        if m > 2:
            p2 = {}
            for o, c in prof:
                k = tuple(a for a in o if a != m)
                p2[k] = p2.get(k, 0) + c
            yield dict(case, alts=case["alts"][:-1], profile=[[list(o), c] for o, c in p2.items()])


PROP = C15
