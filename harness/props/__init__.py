import importlib
import os
import pkgutil


def _modules():
    here = os.path.dirname(__file__)
    for m in sorted(pkgutil.iter_modules([here])):
        if m.name.startswith("c") and m.name[1:].isdigit():
            yield importlib.import_module("harness.props." + m.name)


def all_props():
    return [m.PROP for m in _modules()]


def get(pid):
    for P in all_props():
        if P.id.lower() == pid.lower():
            return P
    raise KeyError(pid)
