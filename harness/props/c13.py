import itertools

from harness.core import Prop, Problem, call
from harness import gen


def tree_votes(rng, alts, n):
    """random tree on alts and n votes whose top-k sets are connected subtrees"""
    nodes = gen.perm(rng, alts)
    edges = []
    for i in range(1, len(nodes)):
        edges.append((nodes[rng.randrange(i)], nodes[i]))
    adj = {a: set() for a in alts}
    for a, b in edges:
        adj[a].add(b)
        adj[b].add(a)
    votes = []
    for _ in range(n):
        cur = [rng.choice(alts)]
        frontier = set(adj[cur[0]])
        while frontier:
            x = rng.choice(sorted(frontier))
            cur.append(x)
            frontier |= adj[x]
            frontier -= set(cur)
        votes.append(cur)
    return votes


class C13(Prop):
    """is_single_peaked_on_tree on strict complete profiles: verdict vs the Lean brute force over all
    spanning trees (m <= 6) and planted tree-single-peaked profiles (m <= 25); the returned edge list
    is validated by the Lean witness checker (spanning tree + every top-k set connected); Lean model of
    the leaf-elimination loop compared on every case."""

    id = "C13"
    level = "proof"
    design_ref = "§8 C13"
    level_text = ("Lean theorems about a statement-faithful model of the repaired leaf-elimination loop: the verdict is exact "
                  "(isSPOnTree_exact: True iff some spanning tree makes every voter's top-k sets connected; soundness "
                  "isSPOnTree_sound by backward re-attachment, completeness isSPOnTree_complete = Trick's theorem: a "
                  "last-ranked alternative is a leaf of every admissible tree and its neighbour lies in B(a)); a returned "
                  "edge list is always such a tree; the executable connectivity test and the witness checker are proved "
                  "equivalent to the declarative path-based definition. The model is compared with the real function on "
                  "every case (verdict; witnesses by validity), the real answers are judged by the verified checker and "
                  "the brute force over all spanning trees (m <= 6)")
    level_note = ("Lean kernel + standard axioms; hand-written model tied to the code by the correspondence check; Python "
                  "set iteration order is not modelled (witnesses are compared by validity only)")
    theorems = [
        "PrefVerif.C13.connectedIn_iff",
        "PrefVerif.C13.sptWitness_iff",
        "PrefVerif.C13.isSPOnTree_sound",
        "PrefVerif.C13.isSPOnTree_spanning",
        "PrefVerif.C13c.isSPOnTree_complete",
        "PrefVerif.C13c.isSPOnTree_exact",
        "PrefVerif.C13c.isSPOnTree_none_iff",
        "PrefVerif.C13c.getB_ne_nil_of_treeSP",
        "PrefVerif.C13c.good_of_SPTOn",
    ]
    rule = ("exhaustive: all profiles of <= 3 distinct orders over 3 alternatives and <= 2 over 4; random m<=6, n<=5 "
            "against brute force over spanning trees; planted tree-single-peaked profiles up to m=25 and one-swap "
            "perturbations; non-trivial = >= 2 orders and >= 3 alternatives (ids: 1..m, 0-based, shifted, sparse, near 2^31 / 2^62 / 10^18, decimal spellings that collide when concatenated, multiples of m apart); 30 % of the cases carry multiplicities and 25 % are built in two stages on one object through the append_* entry points (vote_map / order_list / order / int64 and object order_array, part of a stored order's multiplicity held back) with a query in between")
    budget = {"quick": 1000, "thorough": 20000}
    anchors = [("preflibtools.properties.subdomains.ordinal.singlepeaked.single_peaked_tree", n) for n in
               ("is_single_peaked_on_tree", "get_B", "get_bottom_alts", "restrict_preferences")]

    def corpus(self):
        return [{"kind": "profile", "alts": [1, 2, 3], "orders": [[3, 2, 1], [1, 3, 2]], "planted": None},
                {"kind": "profile", "alts": [1, 2, 3, 4], "orders": [[1, 2, 4, 3], [3, 2, 4, 1], [1, 4, 2, 3]], "planted": None},
                ] + super().corpus()

    def generate(self, rng, n, deep=False):
        ps = list(itertools.permutations([1, 2, 3]))
        for k in (1, 2, 3):
            for sub in itertools.combinations(ps, k):
                yield {"kind": "profile", "alts": [1, 2, 3], "orders": [list(o) for o in sub], "planted": None}
        ps4 = list(itertools.permutations([1, 2, 3, 4]))
        for sub in itertools.combinations(ps4, 2):
            if rng.random() < (1.0 if deep or self.tier == "thorough" else 0.3):
                yield {"kind": "profile", "alts": [1, 2, 3, 4], "orders": [list(o) for o in sub], "planted": None}
        if self.tier == "thorough":
            # every set of three distinct orders over four alternatives (2 024 profiles)
            for sub in itertools.combinations(ps4, 3):
                yield {"kind": "profile", "alts": [1, 2, 3, 4], "orders": [list(o) for o in sub], "planted": None}
        for i in range(n):
            for c in self._random_case(rng):
                yield gen.strict_case_extras(rng, c)

    def _random_case(self, rng):
            r = rng.random()
            if r < 0.5:
                m = rng.randint(2, 6)
                alts = gen.alt_ids(rng, m, zero_ok=True, style="concat" if rng.random() < 0.15 else None)
                orders = [list(o) for o in gen.strict_orders(rng, alts, rng.randint(1, 5))]
                c = {"kind": "profile", "alts": alts, "orders": orders, "planted": None}
                if rng.random() < 0.5:
                    c["store"] = gen.perm(rng, alts)
                yield c
            else:
                m = rng.choice([3, 4, 5, 6, 8, 12, 25])
                alts = gen.alt_ids(rng, m, zero_ok=True)
                votes = tree_votes(rng, alts, rng.randint(1, 8))
                orders = [list(o) for o in dict.fromkeys(map(tuple, votes))]
                planted = True
                if rng.random() < 0.3:
                    k = rng.randrange(len(orders))
                    o = list(orders[k])
                    a, b = rng.sample(range(m), 2)
                    o[a], o[b] = o[b], o[a]
                    if o not in orders:
                        orders[k] = o
                        planted = None
                rng.shuffle(orders)
                yield {"kind": "profile", "alts": alts, "orders": orders, "planted": planted}

    def run_impl(self, case):
        from preflibtools.properties.subdomains.ordinal.singlepeaked.single_peaked_tree import is_single_peaked_on_tree
        inst = gen.strict_case_instance(case, is_single_peaked_on_tree, alts=case.get("store", case["alts"]))
        self.count("built:" + ("grown" if case.get("grow") else "direct") + ("+mult" if case.get("mults") else ""))
        r = call(is_single_peaked_on_tree, inst)
        if r[0] == "ok":
            v, t = r[1]
            try:
                r = ("ok", [bool(v), [[int(a), int(b)] for a, b in t] if t is not None else None])
            except Exception:
                r = ("ok", [bool(v), "malformed"])
        return {"res": r}

    def requests(self, case, obs):
        w = []
        r = obs["res"]
        if r[0] == "ok" and isinstance(r[1][1], list):
            w = [r[1][1]]
        return [{"op": "dom.spt", "alts": case["alts"], "orders": case["orders"], "witnesses": w,
                 "brute": len(case["alts"]) <= 6}]

    def nontrivial_key(self, case, obs):
        return repr((case["alts"], case["orders"])) if len(case["orders"]) >= 2 and len(case["alts"]) >= 3 else None

    def judge(self, case, obs, replies):
        rep = replies[0]
        out = []
        P = lambda what, site: out.append(Problem("violation", case, what, site))
        r = obs["res"]
        if r[0] != "ok":
            P(f"is_single_peaked_on_tree raised {r[1]}", "call")
            return out
        verdict, tree = r[1]
        truth = rep["bruteSPT"]
        if truth is None and case["planted"]:
            truth = True
        self.count("truth:" + str(truth))
        if truth is not None and verdict != truth:
            P(f"answers {verdict}; a tree making every top-k set connected {'exists' if truth else 'does not exist'}",
              "verdict")
        if verdict and rep["witnessOk"] != [True]:
            P(f"returned edges {tree} are not a spanning tree on which every voter's top-k sets are connected", "witness")
        if rep["model"] != verdict:
            out.append(Problem("disagreement", case, f"model verdict {rep['model']} vs implementation {verdict}", "model/verdict"))
        if not rep["modelTreeOk"]:
            out.append(Problem("disagreement", case, "model returned an invalid tree", "model/spec"))
        return out

    def shrink_candidates(self, case):
        os_ = case["orders"]
        yield from gen.strict_case_shrinks(case)
        ms = case.get("mults")
        for i in range(len(os_)):
            if len(os_) > 1:
                c2 = dict(case, orders=os_[:i] + os_[i + 1:], planted=None)
                if ms:
                    c2["mults"] = ms[:i] + ms[i + 1:]
                yield c2
        if len(case["alts"]) > 2:
            for x in case["alts"]:
                o2 = [[a for a in o if a != x] for o in os_]
                if len({tuple(o) for o in o2}) == len(o2):
                    c2 = dict(case, alts=[a for a in case["alts"] if a != x], orders=o2, planted=None)
                    if "store" in case:
                        c2["store"] = [a for a in case["store"] if a != x]
                    yield c2


PROP = C13
