from harness.core import Prop, Problem, call
from harness import gen
from harness.props.c11 import sp_votes
from harness.props.c12 import dedup


class C18(Prop):
    """k_alt_partition_approx and k_alternative_partition_brut_force on strict complete profiles: every
    returned list of axes is validated by the Lean checker (the axes partition the alternatives, each
    axis single-peaked for the restricted profile); the brute-force count is compared with the Lean
    minimum over all set partitions (m <= 6) for every bound k, including the None contract."""

    id = "C18"
    level = "other"
    design_ref = "§8 C18"
    level_text = ("Lean: a statement-faithful model of k_alt_partition_approx (repeated longest_single_peaked_axis, incl. CPython "
                  "set order; same output as the real function on 12 000+ profiles) with theorems that its axes always "
                  "partition the alternatives and that the profile restricted to each axis is single-peaked on it "
                  "(partition_cert, partition_perm, termination via partitionLoop_fuel); verified partition checker and "
                  "verified brute-force minimum over all set partitions (setPartitions_sound/complete). Validity and "
                  "minimality of k_alternative_partition_brut_force and its None contract are compared with these on every "
                  "run for every k (tested, not proved)")
    level_note = "Lean kernel + standard axioms for checker / brute force; the partition algorithms are outside Lean"
    technique = ("Lean 4 proofs of validity for statement-level models of both partition functions + Lean-verified partition "
                 "checker and brute-force minimum; model/implementation correspondence check; minimality is refuted (D19)")
    theorems = [
        "PrefVerif.C12DP.partition_cert",
        "PrefVerif.C12DP.partition_perm",
        "PrefVerif.C12DP.partition_axes",
        "PrefVerif.C12DP.partitionLoop_fuel",
        "PrefVerif.C18BF.bf_cert",
        "PrefVerif.C18BF.bf_at_cap",
        "PrefVerif.C18BF.cap_safe",
        "PrefVerif.C18BF.singleton_pair_combinations_sound",
        "PrefVerif.C18BF.singleton_pair_combinations_complete",
        "PrefVerif.C18BF.fuel_sufficient",
        "PrefVerif.C18BF.bf_not_complete",
        "PrefVerif.C18BF.bf_not_minimal",
        "PrefVerif.Specs.setPartitions_sound",
        "PrefVerif.Specs.setPartitions_complete",
        "PrefVerif.Specs.partitionCert_iff",
        "PrefVerif.Specs.spOnSubset_iff",
    ]
    rule = ("strict complete profiles with 1-7 alternatives (odd and even, ids from 0 or 1 or sparse), 1-4 distinct orders, random and planted "
            "(union of single-peaked blocks), every bound k from 1 to m; non-trivial = >= 2 orders and >= 3 alternatives; 30 % of the cases carry multiplicities and 25 % are built in two stages on one object through the append_* entry points (vote_map / order_list / order / int64 and object order_array, part of a stored order's multiplicity held back) with a query in between (the grown object is used for every call)")
    budget = {"quick": 500, "thorough": 20000}
    anchors = [("preflibtools.properties.subdomains.ordinal.singlepeaked.k_alternative_partition", n) for n in
               ("k_alt_partition_approx", "k_alternative_partition_brut_force", "dfs", "extend",
                "singleton_pair_combinations")] + \
              [("preflibtools.properties.subdomains.ordinal.singlepeaked.k_alternative_deletion", n) for n in
               ("longest_single_peaked_axis", "place", "get_L_sets", "case_2", "case_3", "check_case_4", "boundary",
                "eligible_alternatives", "last_check")]

    def corpus(self):
        return [{"kind": "part", "alts": [1, 2, 3], "orders": [[2, 3, 1], [3, 1, 2], [1, 2, 3]]},
                # D19: the depth-first search misses the 2-axis partition {1,5}, {6,4,3,2}
                {"kind": "part", "alts": [1, 2, 3, 4, 5, 6],
                 "orders": [[1, 2, 3, 4, 5, 6], [5, 2, 3, 4, 1, 6], [5, 1, 4, 3, 6, 2]]},
                # an L-set of four alternatives whose later segmentations matter (from seeded change C18-m3)
                {"kind": "part", "alts": [1, 2, 3, 4, 5, 6, 7],
                 "orders": [[1, 2, 5, 7, 6, 3, 4], [3, 4, 6, 7, 5, 1, 2], [1, 5, 6, 2, 7, 4, 3], [3, 6, 4, 7, 2, 5, 1]]},
                ] + super().corpus()

    def finding_predicates(self):
        # D19: the pinned algorithm itself (as modelled in Lean) misses the optimum on this input in exactly this way
        # (same number of axes / None as the model of the pinned search); an implementation that fails on an input
        # where the pinned search does not, or fails differently, is reported
        return {"C18/pinned-dfs-misses-optimum":
                lambda p: p.site in ("brute/none", "brute/minimum") and p.detail.get("model_agrees") is True}

    def generate(self, rng, n, deep=False):
        for i in range(n):
            m = rng.choice([1, 2, 3, 4, 5, 5, 6, 6, 6, 7])
            alts = gen.alt_ids(rng, m, zero_ok=True)
            if rng.random() < 0.3:
                alts = list(range(0, m))
            nn = rng.randint(1, 4)
            if rng.random() < 0.4:
                axis = gen.perm(rng, alts)
                orders = [[c[0] for c in v] for v in sp_votes(rng, axis, nn)]
                for _ in range(rng.randint(0, 2)):
                    k = rng.randrange(len(orders))
                    if m >= 2:
                        a, b = rng.sample(range(m), 2)
                        orders[k][a], orders[k][b] = orders[k][b], orders[k][a]
            elif rng.random() < 0.4 and m >= 5:
                # large L-sets: several voters with pairwise distinct bottoms, level after level
                nn = min(4, m // 2 + 1)
                orders = []
                base = gen.perm(rng, alts)
                for v in range(nn):
                    o = gen.perm(rng, alts)
                    tail = [base[(v + t * nn) % m] for t in range(2)]
                    o = [a for a in o if a not in tail] + tail[::-1]
                    orders.append(o)
            else:
                orders = [gen.perm(rng, alts) for _ in range(nn)]
            c = {"kind": "part", "alts": alts, "orders": dedup(orders)}
            if rng.random() < 0.5:
                c["store"] = gen.perm(rng, alts)      # alternatives_name not in increasing id order
            yield gen.strict_case_extras(rng, c)

    def run_impl(self, case):
        from preflibtools.properties.subdomains.ordinal.singlepeaked import k_alternative_partition as K
        store = case.get("store", case["alts"])
        grown = None
        if case.get("grow"):
            # ONE object: queried, grown through an append_* entry point, and used for every call below
            grown = gen.strict_case_instance(case, lambda i: K.k_alt_partition_approx(i), alts=store)
            store = [int(a) for a in grown.alternatives_name]
        mk = (lambda: grown) if grown is not None else (lambda: gen.strict_case_instance(dict(case, grow=False), None, alts=store))
        self.count("m:" + str(len(case["alts"])))
        self.count("built:" + ("grown" if grown is not None else "direct") + ("+mult" if case.get("mults") else ""))

        def axes(r):
            if r[0] != "ok":
                return r
            if r[1] is None:
                return ("ok", None)
            try:
                return ("ok", [[int(a) for a in ax] for ax in r[1]])
            except Exception:
                return ("ok", "malformed")
        obs = {"approx": axes(call(K.k_alt_partition_approx, mk(), limit=30)), "brute": {}, "store": store}
        for k in range(1, len(case["alts"]) + 1):
            obs["brute"][k] = axes(call(K.k_alternative_partition_brut_force, mk(), k, limit=30))
        return obs

    def requests(self, case, obs):
        reqs = []
        certs = {}
        a = obs["approx"]
        if a[0] == "ok" and isinstance(a[1], list):
            certs["axes"] = a[1]
        reqs.append({"op": "dom.nearly", "alts": case["alts"], "orders": [[[x] for x in o] for o in case["orders"]],
                     "brute": len(case["alts"]) <= 7, "certs": certs})
        reqs.append({"op": "kalt.partition", "alts": obs["store"], "orders": case["orders"]})
        for k, r in obs["brute"].items():
            c = {"axes2": r[1]} if r[0] == "ok" and isinstance(r[1], list) else {}
            reqs.append({"op": "dom.nearly", "alts": case["alts"], "orders": [[[x] for x in o] for o in case["orders"]],
                         "brute": False, "certs": c})
        for k in obs["brute"]:
            reqs.append({"op": "kalt.bf", "alts": obs["store"], "orders": case["orders"], "k": int(k)})
        return reqs

    def nontrivial_key(self, case, obs):
        return repr(case) if len(case["orders"]) >= 2 and len(case["alts"]) >= 3 else None

    def judge(self, case, obs, replies):
        out = []
        agrees = None
        P = lambda what, site: out.append(Problem("violation", case, what, site, {"model_agrees": agrees}))
        rep0 = replies[0]
        a = obs["approx"]
        if a[0] != "ok" or not isinstance(a[1], list):
            P(f"k_alt_partition_approx failed: {a}", "approx/call")
        elif rep0["axesCert"] is not True:
            P(f"k_alt_partition_approx returned {a[1]}: not a partition of the alternatives into single-peaked axes",
              "approx/certificate")
        opt = rep0["minPartition"]
        mp = replies[1]["axes"]
        if a[0] == "ok" and isinstance(a[1], list):
            # the property only asks for a VALID partition from the approximation (checked above by the verified
            # checker); which one the greedy procedure returns — even how many axes — depends on which of several
            # longest axes the dynamic programme picks: drift, not a broken correspondence
            if mp != a[1]:
                self.count("approx-drift" + ("-size" if len(mp) != len(a[1]) else ""))
        nk = len(obs["brute"])
        models = replies[2 + nk:]
        for ((k, r), rep), mrep in zip(zip(obs["brute"].items(), replies[2:2 + nk]), models):
            k = int(k)
            # statement-faithful Lean model of the pinned depth-first search (exact output incl. CPython set order)
            # what the property observes is the NUMBER of axes (or None); which of several equally small
            # partitions is returned depends on enumeration order and is drift, not a broken correspondence
            size = lambda x: None if x is None else (len(x) if isinstance(x, list) else "?")
            agrees = r[0] == "ok" and size(r[1]) == size(mrep["axes"])
            if not agrees:
                out.append(Problem("disagreement", case, f"k={k}: model of the brute-force search gives {mrep['axes']}, "
                                   f"implementation {r}", "model/bf"))
            elif r[1] != mrep["axes"]:
                self.count("bf-witness-drift")
            _mark = len(out)
            if r[0] != "ok" or r[1] == "malformed":
                P(f"k_alternative_partition_brut_force(k={k}) failed: {r}", "brute/call")
                continue
            if r[1] is None:
                if opt is not None and opt <= k:
                    P(f"k_alternative_partition_brut_force(k={k}) returns None although a partition into {opt} "
                      "single-peaked axes exists", "brute/none")
                continue
            if rep["axes2Cert"] is not True:
                P(f"k_alternative_partition_brut_force(k={k}) returned {r[1]}: not a valid partition", "brute/certificate")
            if opt is not None and len(r[1]) != opt:
                P(f"k_alternative_partition_brut_force(k={k}) uses {len(r[1])} axes, the minimum is {opt}", "brute/minimum")
            if opt is not None and opt > k:
                P(f"k_alternative_partition_brut_force(k={k}) returned a partition although the minimum {opt} exceeds k",
                  "brute/none")
        return out

    def shrink_candidates(self, case):
        os_ = case["orders"]
        yield from gen.strict_case_shrinks(case)
        ms = case.get("mults")
        for i in range(len(os_)):
            if len(os_) > 1:
                c2 = dict(case, orders=os_[:i] + os_[i + 1:])
                if ms:
                    c2["mults"] = ms[:i] + ms[i + 1:]
                yield c2
        if len(case["alts"]) > 1:
            for x in case["alts"]:
                o2 = [[a for a in o if a != x] for o in os_]
                if len({tuple(o) for o in o2}) == len(o2):
                    c2 = dict(case, alts=[a for a in case["alts"] if a != x], orders=o2)
                    if "store" in case:
                        c2["store"] = [a for a in case["store"] if a != x]
                    yield c2


PROP = C18
