from harness.core import Prop, Problem, call
from harness import gen
from harness.props.c06 import run_rule


class C14(Prop):
    """bucklin_voting_winner / fallback_voting_winner vs the Lean model and the majority-threshold
    specification (least depth k with a strict-majority top-k count; full counts otherwise);
    every call runs under a 2 s alarm so that non-termination is reported with its input."""

    id = "C14"
    level = "proof"
    design_ref = "§8 C14"
    level_text = ("Lean theorems: the model of both functions (level loop as recursion on num_alternatives - depth) "
                  "returns exactly the maximisers of the top-k counts at the least majority depth (fallback: full "
                  "approval counts when no depth reaches the quota), counts are per voter, the loop depth is bounded by "
                  "num_alternatives; compared with the real functions on every run, each call under an alarm")
    level_note = "Lean kernel + standard axioms; hand-written model; correspondence is differential testing"
    theorems = [
        "PrefVerif.C14.threshold_scores_are_topk",
        "PrefVerif.C14.threshold_depth",
        "PrefVerif.C14.depth_bound",
        "PrefVerif.C14.fallback_correct",
        "PrefVerif.C14.bucklin_correct",
        "PrefVerif.C14.bucklin_depth_exists",
    ]
    rule = ("soc instances for both rules and soi (truncated) for fallback: 1-6 alternatives, shared first choices, "
            "first-round majorities planted, multiplicities 1-9; non-trivial = >= 2 distinct orders")
    budget = {"quick": 400, "thorough": 40000}
    impl_limit = 2.0
    anchors = [("preflibtools.aggregation.singlewinner", "fallback_voting_winner"),
               ("preflibtools.aggregation.singlewinner", "bucklin_voting_winner")]

    def corpus(self):
        s = lambda l: [[a] for a in l]
        return [
            {"kind": "rule", "rule": "fallback", "type": "soi", "alts": [1, 2],
             "profile": [[s([2]), 3], [s([1, 2]), 4]]},
            {"kind": "rule", "rule": "bucklin", "type": "soc", "alts": [1, 2], "profile": [[s([1, 2]), 3]]},
            {"kind": "rule", "rule": "bucklin", "type": "soc", "alts": [1], "profile": [[s([1]), 3]]},
            {"kind": "rule", "rule": "fallback", "type": "soc", "alts": [1], "profile": [[s([1]), 1]]},
        ] + super().corpus()

    def generate(self, rng, n, deep=False):
        if deep or self.tier == "thorough":
            # scale: the first majority only at a depth beyond a thousand positions (two voters with opposite orders)
            for rule in ("fallback", "bucklin"):
                m = rng.choice([2100, 2400])
                alts = list(range(1, m + 1))
                yield {"kind": "rule", "rule": rule, "type": "soc", "alts": alts, "nospec": True,
                       "profile": [[[[a] for a in alts], 1], [[[a] for a in reversed(alts)], 1]]}
        for i in range(n):
            rule = "bucklin" if i % 2 else "fallback"
            kind = "soc" if rule == "bucklin" or rng.random() < 0.5 else "soi"
            m = rng.choice([1, 2, 2, 3, 3, 4, 4, 5, 6])
            c = gen.ordinal_case(rng, m=m, n=rng.randint(1, 6), kind=kind, max_mult=9)
            if rng.random() < 0.3 and len(c["profile"]) > 1:
                # plant a first-place majority
                c["profile"][0][1] = sum(mm for _, mm in c["profile"]) + rng.randint(0, 2)
            yield {"kind": "rule", "rule": rule, "grow": rng.random() < 0.2, **c}

    def run_impl(self, case):
        from preflibtools.aggregation import singlewinner as SW
        self.count("rule:" + case["rule"] + "/" + case["type"])
        f = getattr(SW, case["rule"] + "_voting_winner")
        inst = None
        if case.get("grow"):
            inst = gen.grown_instance(gen.from_json_profile(case["profile"]), case["alts"], case["type"], f)
        if inst is None:
            inst = gen.inst_of(case)
        r = call(f, inst, limit=self.impl_limit)
        if r[0] == "ok":
            try:
                r = ("ok", sorted(int(a) for a in r[1]))
            except Exception:
                r = ("ok", "malformed")
        return {"res": r}

    def requests(self, case, obs):
        return [gen.model_inst(case, op="voting.rule", rule=case["rule"])]

    def nontrivial_key(self, case, obs):
        return repr((case["rule"], case["alts"], case["profile"])) if len(case["profile"]) > 1 else None

    def judge(self, case, obs, replies):
        rep = replies[0]
        out = []
        res = obs["res"]
        rule = case["rule"]
        self.count("depth:" + str(rep["depth"]))
        if not rep["inDomain"]:
            if res != ("exc", "refused"):
                out.append(Problem("disagreement", case, f"{rule} outside its domain: {res}", rule + "/guard"))
            return out
        if res == ("exc", "Timeout"):
            out.append(Problem("violation", case, f"{rule}_voting_winner did not return within {self.impl_limit}s",
                               rule + "/termination"))
            return out
        spec = ("ok", sorted(rep["spec"]))
        if res != spec:
            out.append(Problem("violation", case, f"{rule} winners = {res}; majority-threshold rule (depth "
                               f"{rep['depth']}) gives {spec}", rule + "/winners"))
        model = ("ok", sorted(rep["model"]["ok"])) if "ok" in rep["model"] else ("exc", rep["model"]["exc"])
        if model != spec:
            out.append(Problem("disagreement", case, f"Lean model {model} differs from Lean spec {spec}", "model/spec"))
        return out

    def shrink_candidates(self, case):
        return gen.shrink_profile_case(case)


PROP = C14
