import itertools

from harness.core import Prop, Problem, call
from harness import gen


def sc_walk(rng, alts, steps):
    """a single-crossing sequence: adjacent swaps, every pair swapped at most once"""
    cur = gen.perm(rng, alts)
    seq = [tuple(cur)]
    done = set()
    for _ in range(steps):
        cands = [i for i in range(len(cur) - 1) if frozenset((cur[i], cur[i + 1])) not in done]
        if not cands:
            break
        i = rng.choice(cands)
        done.add(frozenset((cur[i], cur[i + 1])))
        cur[i], cur[i + 1] = cur[i + 1], cur[i]
        if rng.random() < 0.7:
            seq.append(tuple(cur))
    if tuple(cur) != seq[-1]:
        seq.append(tuple(cur))
    return seq


class C04(Prop):
    """is_single_crossing and is_single_crossing_conflict_sets on strict complete profiles: verdict vs
    the Lean brute-force decider (small) and planted single-crossing walks (large), returned voter
    ordering validated by the Lean witness checker, both branches (n < m, n >= m) forced, and the Lean
    model of the sorting algorithm compared on every case."""

    id = "C04"
    level = "proof"
    design_ref = "§8 C04"
    level_text = ("Lean theorems about a statement-faithful model of singlecrossing.py: the verdict of is_single_crossing "
                  "is exact (isSC_iff: True iff the distinct orders can be arranged so that every pair switches at most "
                  "once; soundness isSC_sound and completeness isSC_complete, both the sort and the bucket branch, any "
                  "storage order), the returned sequence is a single-crossing arrangement of all distinct orders, the "
                  "verification pass is equivalent to the definition (isOrderedSC_iff), is_single_crossing_conflict_sets "
                  "decides the same property (conflictSets_iff) and gives the same verdict (isSC_eq_conflictSets); "
                  "witness checker and brute-force decider are verified. The model is run against the real functions on "
                  "every case")
    level_note = ("Lean kernel + standard axioms; hand-written model (D2 repaired: buckets flattened) tied to the code by "
                  "the correspondence check")
    theorems = [
        "PrefVerif.C04.mem_perms",
        "PrefVerif.C04.scSeq_iff",
        "PrefVerif.C04.bruteSC_iff",
        "PrefVerif.C04.scWitness_iff",
        "PrefVerif.C04.isOrderedSC_iff",
        "PrefVerif.C04.isSC_sound",
        "PrefVerif.C04.isSC_true_imp_SC",
        "PrefVerif.C04.conflictSets_iff",
        "PrefVerif.C04.conflictSets_sound",
        "PrefVerif.C04.conflictSets_empty",
        "PrefVerif.C04c.kt_additive_of_scSeq",
        "PrefVerif.C04c.isSC_complete",
        "PrefVerif.C04c.isSC_iff",
        "PrefVerif.C04c.isSC_eq_conflictSets",
    ]
    rule = ("exhaustive: all sets of <= 3 orders over 3 alternatives; random profiles m<=6 against brute force "
            "(n<=6); planted single-crossing walks and one-swap perturbations up to m=12, n=16 with shuffled storage, "
            "n<m and n>=m in equal shares; non-trivial = >= 3 orders (ids: 1..m, 0-based, shifted, sparse, near 2^31 / 2^62 / 10^18, decimal spellings that collide when concatenated, multiples of m apart); 30 % of the cases carry multiplicities and 25 % are built in two stages on one object through the append_* entry points (vote_map / order_list / order / int64 and object order_array, part of a stored order's multiplicity held back) with a query in between")
    budget = {"quick": 800, "thorough": 10000}
    anchors = [("preflibtools.properties.subdomains.ordinal.singlecrossing", n) for n in
               ("is_single_crossing", "_is_ordered_profile_single_crossing", "is_single_crossing_conflict_sets")] + \
              [("preflibtools.properties.distances", "kendall_tau_distance")]

    def corpus(self):
        return [{"kind": "profile", "alts": [1, 2, 3], "planted": None,
                 "orders": [[3, 1, 2], [2, 1, 3], [3, 2, 1], [1, 3, 2]]}] + super().corpus()

    def generate(self, rng, n, deep=False):
        ps = list(itertools.permutations([1, 2, 3]))
        for k in (1, 2, 3):
            for sub in itertools.combinations(ps, k):
                yield {"kind": "profile", "alts": [1, 2, 3], "orders": [list(o) for o in sub], "planted": None}
        if self.tier == "thorough" or deep:
            ps4 = list(itertools.permutations([1, 2, 3, 4]))
            for k in (2, 3):
                # every set of two / three distinct orders over four alternatives (276 + 2 024 profiles)
                for sub in itertools.combinations(ps4, k):
                    if k == 2 or self.tier == "thorough":
                        yield {"kind": "profile", "alts": [1, 2, 3, 4], "orders": [list(o) for o in sub], "planted": None}
        for i in range(n):
            for c in self._random_case(rng, i):
                yield gen.strict_case_extras(rng, c)

    def _random_case(self, rng, i):
            r = rng.random()
            if r < 0.45:
                m = rng.randint(2, 5)
                alts = gen.alt_ids(rng, m, zero_ok=True)
                nn = rng.randint(1, 6)
                orders = gen.strict_orders(rng, alts, nn)
                planted = None
                if rng.random() < 0.5:
                    yield {"kind": "profile", "alts": alts, "store": gen.perm(rng, alts),
                           "orders": [list(o) for o in orders], "planted": None}
                    return
            else:
                m = rng.choice([3, 4, 5, 6, 8, 12])
                alts = gen.alt_ids(rng, m, zero_ok=True)
                seq = sc_walk(rng, alts, rng.randint(1, m * (m - 1) // 2))
                seq = list(dict.fromkeys(seq))
                if len(seq) > 16:
                    seq = [seq[k] for k in sorted(rng.sample(range(len(seq)), 16))]
                want_small = i % 2 == 0
                if want_small and len(seq) >= m:
                    seq = [seq[k] for k in sorted(rng.sample(range(len(seq)), max(1, m - 1)))]
                orders = [list(o) for o in seq]
                planted = True
                if rng.random() < 0.35 and len(orders) >= 2:
                    # perturb one order by a random transposition: status unknown
                    k = rng.randrange(len(orders))
                    o = list(orders[k])
                    a, b = rng.sample(range(m), 2) if m > 1 else (0, 0)
                    o[a], o[b] = o[b], o[a]
                    if o not in orders:
                        orders[k] = o
                        planted = None
                rng.shuffle(orders)
            yield {"kind": "profile", "alts": alts, "orders": [list(o) for o in orders], "planted": planted}

    def run_impl(self, case):
        from preflibtools.properties.subdomains.ordinal import singlecrossing as SC
        inst = gen.strict_case_instance(case, SC.is_single_crossing, alts=case.get("store", case["alts"]))
        self.count("built:" + ("grown" if case.get("grow") else "direct") + ("+mult" if case.get("mults") else ""))
        n, m = len(case["orders"]), len(case["alts"])
        self.count("branch:" + ("n<m" if n < m else "n>=m"))
        r = call(SC.is_single_crossing, inst)
        if r[0] == "ok":
            v, s = r[1]
            r = ("ok", [bool(v), [list(map(int, o)) for o in s] if s is not None else None])
        c = call(SC.is_single_crossing_conflict_sets, inst)
        return {"sc": r, "cs": c if c[0] != "ok" else ("ok", bool(c[1]))}

    def requests(self, case, obs):
        w = []
        if obs["sc"][0] == "ok" and obs["sc"][1][1] is not None:
            w = [obs["sc"][1][1]]
        n, m = len(case["orders"]), len(case["alts"])
        return [{"op": "dom.sc", "alts": case["alts"], "orders": case["orders"], "witnesses": w,
                 "brute": n <= 6 and m <= 7}]

    def nontrivial_key(self, case, obs):
        return repr((case["alts"], case["orders"])) if len(case["orders"]) >= 3 else None

    def judge(self, case, obs, replies):
        rep = replies[0]
        out = []
        P = lambda what, site: out.append(Problem("violation", case, what, site))
        sc, cs = obs["sc"], obs["cs"]
        if sc[0] != "ok":
            P(f"is_single_crossing raised {sc[1]}", "sc/call")
            return out
        verdict, seq = sc[1]
        truth = rep["bruteSC"]
        if truth is None and case["planted"]:
            truth = True
        self.count("truth:" + str(truth))
        if truth is not None and verdict != truth:
            P(f"is_single_crossing answers {verdict}, the profile is {'single-crossing' if truth else 'not single-crossing'}",
              "sc/verdict")
        if verdict and (seq is None or rep["witnessOk"] != [True]):
            P(f"returned ordering {seq} is not a single-crossing arrangement of all distinct orders", "sc/witness")
        if cs[0] != "ok":
            P(f"is_single_crossing_conflict_sets raised {cs[1]}", "cs/call")
        else:
            if truth is not None and cs[1] != truth:
                P(f"is_single_crossing_conflict_sets answers {cs[1]}, truth is {truth}", "cs/verdict")
            if cs[1] != verdict:
                P(f"is_single_crossing says {verdict} but is_single_crossing_conflict_sets says {cs[1]}", "agree")
        if rep["model"] != verdict:
            out.append(Problem("disagreement", case, f"model verdict {rep['model']} vs implementation {verdict}", "model/sc"))
        if cs[0] == "ok" and rep["modelConflict"] != cs[1]:
            out.append(Problem("disagreement", case, f"model conflict-set verdict {rep['modelConflict']} vs {cs[1]}", "model/cs"))
        if not rep["modelSeqOk"]:
            out.append(Problem("disagreement", case, "model returned an invalid sequence", "model/spec"))
        return out

    def shrink_candidates(self, case):
        os_ = case["orders"]
        yield from gen.strict_case_shrinks(case)
        ms = case.get("mults")
        for i in range(len(os_)):
            if len(os_) > 1:
                c2 = dict(case, orders=os_[:i] + os_[i + 1:], planted=None)
                if ms:
                    c2["mults"] = ms[:i] + ms[i + 1:]
                yield c2
        if len(case["alts"]) > 2:
            for x in case["alts"]:
                o2 = [[a for a in o if a != x] for o in os_]
                if len({tuple(o) for o in o2}) == len(o2):
                    c2 = dict(case, alts=[a for a in case["alts"] if a != x], orders=o2, planted=None)
                    if "store" in case:
                        c2["store"] = [a for a in case["store"] if a != x]
                    yield c2


PROP = C04
