import itertools
import re
import subprocess
from fractions import Fraction

from harness.core import Prop, Problem, call
from harness import gen


def z3_oracle(alts, orders):
    """exact decision of 1-Euclideanness with z3 (linear real arithmetic), one query per axis.
    Returns (True, (voter positions, alt positions)) or (False, None).  Proposes certificates only:
    a positive answer is re-checked by the Lean embedding checker."""
    decl = "".join(f"(declare-const y{a} Real)" for a in alts) + "".join(f"(declare-const x{i} Real)" for i in range(len(orders)))
    script = ["(set-option :produce-models true)", decl]
    axes = []
    for ax in itertools.permutations(alts):
        if ax[0] > ax[-1]:
            continue
        axes.append(ax)
        pos = {a: i for i, a in enumerate(ax)}
        cons = [f"(< y{ax[i]} y{ax[i + 1]})" for i in range(len(ax) - 1)]
        for v, o in enumerate(orders):
            for a, b in zip(o, o[1:]):
                op = "<" if pos[a] < pos[b] else ">"
                cons.append(f"({op} (* 2.0 x{v}) (+ y{a} y{b}))")
        script.append("(push)" + "".join(f"(assert {c})" for c in cons) + "(check-sat)(get-model)(pop)")
    r = subprocess.run(["z3", "-in"], input="\n".join(script).encode(), capture_output=True, timeout=120)
    out = r.stdout.decode()
    chunks = re.split(r"^(sat|unsat|unknown)$", out, flags=re.M)
    # chunks: ['', 'unsat', '\n(error...)', 'sat', 'model', ...]
    for k in range(1, len(chunks), 2):
        if chunks[k] == "sat":
            model = chunks[k + 1]
            vals = {}
            for m_ in re.finditer(r"\(define-fun (\w+) \(\) Real\s+([^\n]+(?:\n\s+[^\n(]+)*)\)", model):
                vals[m_.group(1)] = parse_real(m_.group(2))
            try:
                return True, ([vals.get(f"x{i}", Fraction(0)) for i in range(len(orders))],
                              {a: vals.get(f"y{a}", Fraction(0)) for a in alts})
            except Exception:
                return True, None
        if chunks[k] == "unknown":
            return None, None
    return False, None


def parse_real(s):
    s = s.strip()
    toks = re.findall(r"[()]|[^\s()]+", s)

    def ev(i):
        t = toks[i]
        if t == "(":
            op = toks[i + 1]
            args, j = [], i + 2
            while toks[j] != ")":
                v, j = ev(j)
                args.append(v)
            j += 1
            if op == "-":
                return (-args[0] if len(args) == 1 else args[0] - args[1]), j
            if op == "/":
                return args[0] / args[1], j
            if op == "+":
                return sum(args), j
            if op == "*":
                return args[0] * args[1], j
            raise ValueError(op)
        return Fraction(t), i + 1
    return ev(0)[0]


def frac_json(x):
    f = Fraction(x)
    return [f.numerator, f.denominator]


class C19(Prop):
    """is_one_euclidean on strict complete profiles over 1..m: verdict vs an exact oracle (z3 proposes an
    embedding per candidate axis, the Lean rational checker validates it; infeasibility of every axis is
    z3's answer) and the returned positions validated by the Lean embedding checker (all voters, all
    alternatives, strictly increasing distances).  The combinatorial stage (single-crossing pre-check,
    colouring, grey set) is modelled in Lean to delimit the known defect D17."""

    id = "C19"
    level = "other"
    design_ref = "§8 C19"
    level_text = ("Lean: statement-faithful model of everything up to the LP (single-crossing pre-check, colouring, axis from "
                  "colours, restricted preferences, constraint generation; same decisions, grey set, axis and constraint "
                  "set as the real code on 9 000 profiles and on every run here) with theorems: every feasible point "
                  "of the generated LP realises the votes restricted to the coloured alternatives (lp_sound), the LP is "
                  "feasible iff such an embedding exists along the axis (lp_feasible_iff), and when no alternative is grey a "
                  "feasible point realises the full votes (nogrey_partial); conversely, for every 1-Euclidean profile with "
                  "pairwise distinct orders, stored in any order, the pre-check and the colouring succeed and the LP is "
                  "feasible (C19x.complete_partial), which with no grey alternative makes the model exact "
                  "(C19x.nogrey_exact_partial); verified rational embedding checker. With grey alternatives the verdict "
                  "is compared with an exact z3 oracle whose positive answers are re-checked in Lean (tested, not "
                  "proved; the property is false there: D17b). The pinned code carries known findings D17 (single order; grey alternatives never "
                  "enter the LP), listed in known_findings.json")
    level_note = ("Lean kernel + standard axioms for the checker; z3 (linear real arithmetic) is trusted for 'no axis is "
                  "feasible'; CBC solves the library's LP; floats are converted exactly to rationals")
    technique = ("Lean 4 proofs about a statement-level model of everything up to the LP (soundness; completeness for profiles "
                 "1-Euclidean profiles) + Lean-verified rational embedding checker; exact-oracle (z3) differential testing")
    theorems = [
        "PrefVerif.Specs.realises_iff",
        "PrefVerif.C19.lp_sound",
        "PrefVerif.C19.lp_complete",
        "PrefVerif.C19.lp_feasible_iff",
        "PrefVerif.C19.lp_wellFormed",
        "PrefVerif.C19.lp_model_sound",
        "PrefVerif.C19.nogrey_partial",
        "PrefVerif.C19x.complete_partial",
        "PrefVerif.C19x.nogrey_exact_partial",
        "PrefVerif.C19x.complete_on_partial",
        "PrefVerif.C19x.nogrey_on_partial",
        "PrefVerif.C19x.lp_model_sound_on",
    ]
    rule = ("profiles over alternatives 1..m (m <= 5): Euclidean by construction (random generic positions), random "
            "strict profiles, single orders; storage order shuffled; oracle = z3 over all axes; non-trivial = >= 2 "
            "orders and >= 3 alternatives; 30 % of the cases carry multiplicities and 25 % are built in two stages on one object through the append_* entry points (vote_map / order_list / order / int64 and object order_array, part of a stored order's multiplicity held back) with a query in between")
    budget = {"quick": 100, "thorough": 3000}
    anchors = [("preflibtools.properties.subdomains.ordinal.euclidean", n) for n in
               ("is_one_euclidean", "_one_euclidean_solve_lp", "_one_euclidean_gen_sets", "_restrict_preferences")] + \
              [("preflibtools.properties.subdomains.ordinal.singlecrossing", "is_single_crossing")]

    def corpus(self):
        return [{"kind": "profile", "alts": [1, 2], "orders": [[1, 2]]},
                {"kind": "profile", "alts": [1, 2, 3], "orders": [[1, 3, 2], [1, 2, 3], [3, 1, 2]]},
                {"kind": "profile", "alts": [1, 2, 3, 4], "orders": [[3, 4, 2, 1], [3, 1, 2, 4], [4, 3, 2, 1]]},
                ] + super().corpus()

    def generate(self, rng, n, deep=False):
        for i in range(n):
            m = rng.choice([2, 3, 3, 4, 4, 5])
            alts = list(range(1, m + 1))
            nn = rng.randint(1, 5)
            if rng.random() < 0.6:
                ys = rng.sample(range(0, 40), m)
                pos = dict(zip(alts, ys))
                orders = []
                for _ in range(nn):
                    x = rng.randint(-5, 45) + rng.choice([0.25, 0.35, 0.45])
                    o = sorted(alts, key=lambda a: abs(pos[a] - x))
                    orders.append(o)
            else:
                orders = [gen.perm(rng, alts) for _ in range(nn)]
            orders = [list(o) for o in dict.fromkeys(map(tuple, orders))]
            rng.shuffle(orders)
            yield gen.strict_case_extras(rng, {"kind": "profile", "alts": alts, "orders": orders})

    def run_impl(self, case):
        from preflibtools.properties.subdomains.ordinal.euclidean import is_one_euclidean
        inst = gen.strict_case_instance(case, is_one_euclidean)
        self.count("built:" + ("grown" if case.get("grow") else "direct") + ("+mult" if case.get("mults") else ""))
        from harness import ilpcap
        import preflibtools.properties.subdomains.ordinal.euclidean as E
        store = []
        seen_sc = []
        real_sc = getattr(E, "is_single_crossing", None)

        def recording_sc(*a, **kw):
            out = real_sc(*a, **kw)
            try:
                if out[0] and out[1] is not None:
                    seen_sc.append([[int(x) for x in o] for o in out[1]])
            except Exception:
                pass
            return out
        # the arrangement the implementation's own pre-check returns is observed (not altered): any valid
        # single-crossing arrangement is a correct answer, and the model is evaluated on the one that was used
        if real_sc is not None:
            E.is_single_crossing = recording_sc
        try:
            with ilpcap.capture(store):
                r = call(is_one_euclidean, inst, limit=60)
        finally:
            if real_sc is not None:
                E.is_single_crossing = real_sc
        lp_capture = store[0] if len(store) == 1 else ("none" if not store else "several")
        n = len(case["orders"])
        if r[0] == "ok":
            v, y = r[1]
            emb = None
            if v and isinstance(y, dict):
                try:
                    emb = {"voters": [frac_json(y[i]) if i in y else None for i in range(n)],
                           "alts": [[a, frac_json(y[a + n - 1])] if (a + n - 1) in y else [a, None] for a in case["alts"]]}
                except Exception as e:  # noqa
                    emb = "malformed"
            r = ("ok", [bool(v), emb])
        truth, cert = z3_oracle(case["alts"], case["orders"])
        obs = {"res": r, "truth": truth, "lp": lp_capture, "sc_seen": seen_sc[-1] if len(seen_sc) == 1 else None}
        if cert is not None:
            obs["oracle_cert"] = {"voters": [frac_json(x) for x in cert[0]],
                                  "alts": [[a, frac_json(p)] for a, p in cert[1].items()]}
        return obs

    @staticmethod
    def _emb(e):
        if not isinstance(e, dict) or any(v is None for v in e["voters"]) or any(p is None for _, p in e["alts"]):
            return None
        return [e["voters"], e["alts"]]

    def requests(self, case, obs):
        embs = []
        r = obs["res"]
        self._has_impl = False
        if r[0] == "ok" and r[1][0] and self._emb(r[1][1]) is not None:
            embs.append(self._emb(r[1][1]))
        if "oracle_cert" in obs:
            embs.append(self._emb(obs["oracle_cert"]))
        return [{"op": "c19.check", "alts": case["alts"], "orders": case["orders"], "embeddings": embs},
                dict({"op": "euc.lp", "alts": case["alts"], "orders": case["orders"]},
                     **({"sc": obs["sc_seen"]} if obs.get("sc_seen") else {}))]

    def nontrivial_key(self, case, obs):
        return repr(case) if len(case["orders"]) >= 2 and len(case["alts"]) >= 3 else None

    def finding_predicates(self):
        return {
            "C19/single-order": lambda p: len(p.case["orders"]) == 1,
            # the committed corpus lists grey inputs on which the pinned tree is right: those stay enforced
            "C19/grey-nonempty": lambda p: len(p.detail.get("grey", [])) > 0 and not p.case.get("pinned_ok"),
        }

    def judge(self, case, obs, replies):
        rep = replies[0]
        out = []
        det = {"grey": rep["grey"], "sc": rep["sc"], "colouringOk": rep["colouringOk"]}
        P = lambda what, site: out.append(Problem("violation", case, what, site, det))
        r = obs["res"]
        truth = obs["truth"]
        self.count("truth:" + str(truth) + "/grey:" + str(len(rep["grey"]) > 0))
        checks = list(rep["realises"])
        impl_has = r[0] == "ok" and r[1][0] and self._emb(r[1][1]) is not None
        impl_ok = checks.pop(0) if impl_has else None
        if "oracle_cert" in obs:
            oc = checks.pop(0)
            if oc is not True:
                out.append(Problem("disagreement", case, "oracle certificate rejected by the Lean checker", "oracle"))
                return out
        if r[0] != "ok":
            P(f"is_one_euclidean raised {r[1]}", "call")
            return out
        v, emb = r[1]
        if truth is not None and v != truth:
            P(f"is_one_euclidean answers {v}; the profile is {'1-Euclidean' if truth else 'not 1-Euclidean'}", "verdict")
        if v and impl_ok is not True:
            P(f"returned positions do not realise the votes (missing voter/alternative or a ranking contradicted): {emb}",
              "embedding")
        # correspondence with the Lean model of everything up to the LP (alternatives 1..m, m <= 7)
        mlp = replies[1]
        if mlp.get("modelArrangementDiffers"):
            self.count("sc-arrangement-drift")       # the pre-check returned another valid arrangement than the model's
        if obs.get("sc_seen") and mlp.get("usedObservedArrangement") is False:
            out.append(Problem("disagreement", case, "the arrangement returned by the implementation's pre-check is rejected "
                               f"by the verified single-crossing checker: {obs['sc_seen']}", "model/sc-arrangement", det))
        cap = obs["lp"]
        reached_model = mlp.get("axis") is not None and mlp["sc"] and mlp["colouringOk"]
        reached_impl = isinstance(cap, dict)
        if reached_model != reached_impl:
            out.append(Problem("disagreement", case, f"model {'reaches' if reached_model else 'does not reach'} the LP, "
                               f"implementation {'does' if reached_impl else 'does not'}", "model/lp-reached", det))
        elif reached_impl:
            from collections import Counter
            from harness import ilpcap
            mine, theirs = set(ilpcap.model_constraints(mlp)), set(cap["constraints"])     # as sets: repeats are drift
            if mine != theirs:
                diff = list(theirs - mine)[:2] + list(mine - theirs)[:2]
                out.append(Problem("disagreement", case, "the LP handed to the solver differs from the model's "
                                   f"({len(theirs - mine)} extra, {len(mine - theirs)} missing), e.g. {diff}",
                                   "model/lp-constraints", det))
        return out

    def shrink_candidates(self, case):
        if case.get("pinned_ok"):
            return        # a regression-corpus case is reported as it is
        os_ = case["orders"]
        yield from gen.strict_case_shrinks(case)
        ms = case.get("mults")
        for i in range(len(os_)):
            if len(os_) > 1:
                c2 = dict(case, orders=os_[:i] + os_[i + 1:])
                if ms:
                    c2["mults"] = ms[:i] + ms[i + 1:]
                yield c2
        m = len(case["alts"])
        if m > 2:
            o2 = [[a for a in o if a != m] for o in os_]
            if len({tuple(o) for o in o2}) == len(o2):
                yield dict(case, alts=case["alts"][:-1], orders=o2)


PROP = C19
