import os

from harness.core import Prop, Problem, call
from harness import iolib

PAD = [" ", "\t", "  ", " \t ", " ", "　", " "]
CLS_OF_EXT = {"soc": "ord", "soi": "ord", "toc": "ord", "toi": "ord", "cat": "cat", "wmd": "mat"}
EXTS = ["soc", "soi", "toc", "toi", "cat", "wmd"]


def empty_containers(d):
    if d is None:
        return True
    if d["cls"] == "ord":
        return d["orders"] == [] and d["multiplicity"] == []
    if d["cls"] == "cat":
        return d["preferences"] == [] and d["multiplicity"] == []
    return d["nodes"] == [] and d["weights"] == []


class C10(Prop):
    """parse_file / parse_str / parse_url(file:) / get_parsed_instance on the same generated content,
    re-rendered with padded lines, LF / CRLF / CR line ends and extra spaces in ballot lines; the
    header_only flag; every mismatched (class, extension) pair — compared with each other, with the
    canonical parse, and with the Lean model of the entry points."""

    id = "C10"
    level = "proof"
    design_ref = "§8 C10"
    level_text = ("Lean theorems about the model of the entry points: padding lines with Python whitespace, the three "
                  "line-ending styles and extra spaces in ballot lines do not change the parsed instance; parse_file, "
                  "parse_str, parse_url and get_parsed_instance agree on well-formed content; header_only yields the "
                  "same header with no ballots; a (class, extension) mismatch is a TypeError with nothing loaded. The "
                  "model is run against all four real entry points on every run")
    level_note = ("Lean kernel + standard axioms; hand-written models of readlines (universal newlines), splitlines, "
                  "strip; urlopen on a file: URL is byte-transparent; os.path is not modelled (base name and extension "
                  "are inputs)")
    theorems = [
        "PrefVerif.C10.strip_invariant",
        "PrefVerif.C10.space_invariant_ord",
        "PrefVerif.C10.space_invariant_cat",
        "PrefVerif.C10.space_invariant_mat",
        "PrefVerif.C10.entry_points_agree",
        "PrefVerif.C10.get_dispatch",
        "PrefVerif.C10.header_only_ord",
        "PrefVerif.C10.header_only_cat",
        "PrefVerif.C10.header_only_mat",
        "PrefVerif.C10.type_gate",
        "PrefVerif.C10.unknown_extension",
    ]
    rule = ("contents written by the real writers from random ordinal / categorical / matching instances, each "
            "re-rendered with random per-line padding, one of LF/CRLF/CR and extra spaces; all four entry points x "
            "header_only in {False, True}; all 6 extensions x 3 classes for the gate; non-trivial = content with >= 2 "
            "ballot/edge lines; parse_str is also called with file_name left to its default and with all arguments positional "
            "in the documented order; file_name is compared (the content carries its own FILE NAME line)")
    budget = {"quick": 400, "thorough": 5000}
    anchors = [("preflibtools.instances.preflibinstance.instance", "PrefLibInstance." + n) for n in
               ("parse_lines", "parse_file", "parse_str", "parse_url")] + \
              [("preflibtools.instances.preflibinstance.utils", "get_parsed_instance"),
               ("preflibtools.instances.preflibinstance.ordinal", "OrdinalInstance.parse"),
               ("preflibtools.instances.preflibinstance.ordinal", "OrdinalInstance.type_validator"),
               ("preflibtools.instances.preflibinstance.categorical", "CategoricalInstance.parse"),
               ("preflibtools.instances.preflibinstance.categorical", "CategoricalInstance.type_validator"),
               ("preflibtools.instances.preflibinstance.matching", "MatchingInstance.parse"),
               ("preflibtools.instances.preflibinstance.matching", "MatchingInstance.type_validator")]

    def generate(self, rng, n, deep=False):
        for k in range(n):
            g = [iolib.gen_ordinal, iolib.gen_categorical, iolib.gen_matching][k % 3]
            j = g(rng)
            yield {"kind": "content", "inst": j, "eol": rng.choice(["\n", "\r\n", "\r"]),
                   "pad_seed": rng.randint(0, 10 ** 6), "final_eol": rng.random() < 0.8}
        for cls in ("ord", "cat", "mat"):
            for ext in EXTS + ["txt", "SOC", ""]:
                if CLS_OF_EXT.get(ext) != cls:
                    yield {"kind": "gate", "cls": cls, "ext": ext,
                           "inst": {"ord": iolib.gen_ordinal, "cat": iolib.gen_categorical,
                                    "mat": iolib.gen_matching}[CLS_OF_EXT.get(ext, cls)](rng)}

    # ---- helpers
    def _variant(self, text, case):
        import random
        rng = random.Random(case["pad_seed"])
        lines = text.split("\n")
        if lines and lines[-1] == "":
            lines.pop()
        out = []
        cls = case["inst"]["cls"]
        for l in lines:
            if not l.startswith("#"):
                # extra spaces inside ballot / edge lines
                l2 = ""
                for ch in l:
                    l2 += ch
                    if ch in ",:{}" and rng.random() < 0.5:
                        l2 += " " * rng.randint(1, 2)
                    elif ch == " " and rng.random() < 0.3:
                        l2 += " "
                l = l2
            l = (rng.choice(PAD) if rng.random() < 0.4 else "") + l + (rng.choice(PAD) if rng.random() < 0.4 else "")
            out.append(l)
        t = case["eol"].join(out)
        if case["final_eol"]:
            t += case["eol"]
        return t

    def _all_entries(self, cls, name, ext, text, header_only, autocorrect=False):
        path = iolib.put(name, text)
        res = {}
        res["file"] = iolib.parse_impl("file", cls, path=path, header_only=header_only, autocorrect=autocorrect)[0]
        res["str"] = iolib.parse_impl("str", cls, content=text, data_type=ext, file_name=name,
                                      header_only=header_only, autocorrect=autocorrect)[0]
        res["url"] = iolib.parse_impl("url", cls, path=path, header_only=header_only, autocorrect=autocorrect)[0]
        res["get"] = iolib.parse_impl("get", None, path=path, header_only=header_only, autocorrect=autocorrect)[0]
        if autocorrect:
            return res
        # the same entry point called the other documented ways (after the four that the model mirrors)
        res["str_default"] = iolib.parse_impl("str_default", cls, content=text, data_type=ext, header_only=header_only)[0]
        res["str_positional"] = iolib.parse_impl("str_positional", cls, content=text, data_type=ext, file_name=name,
                                                 header_only=header_only)[0]
        return res

    def run_impl(self, case):
        j = case["inst"]
        inst = iolib.build(j)
        name = j["header"]["file_name"]
        ext = name.rsplit(".", 1)[-1]
        self.count("kind:" + case["kind"] + "/" + j["cls"])
        if case["kind"] == "gate":
            (w, path) = iolib.write_impl(inst, name)
            if w[0] != "ok":
                return {"write": w}
            bad = "g" + str(abs(hash(name)) % 1000) + ("." + case["ext"] if case["ext"] else "")
            p2 = iolib.put(bad, w[1])
            obs = {"write": w, "name": bad}
            for entry in ("file", "str"):
                r, after = iolib.parse_impl(entry, case["cls"], path=p2, content=w[1], data_type=case["ext"], file_name=bad)
                obs[entry] = (r[0], r[1] if r[0] == "exc" else "parsed")
                obs[entry + "_empty"] = empty_containers(after)
            if case["ext"] not in EXTS:
                r, _ = iolib.parse_impl("get", None, path=p2)
                obs["get"] = (r[0], r[1] if r[0] == "exc" else "parsed")
            return obs
        (w, path) = iolib.write_impl(inst, name)
        if w[0] != "ok":
            return {"write": w}
        text = w[1]
        var = self._variant(text, case)
        obs = {"write": w, "variant": var, "ext": ext, "name": name}
        obs["canonical"] = iolib.parse_impl("str", j["cls"], content=text, data_type=ext, file_name=name)[0]
        obs["full"] = self._all_entries(j["cls"], "v_" + name, ext, var, False)
        obs["header_only"] = self._all_entries(j["cls"], "h_" + name, ext, var, True)
        # both flags together: the content is clean, so autocorrect must not change what header_only yields
        obs["header_only_auto"] = self._all_entries(j["cls"], "a_" + name, ext, var, True, autocorrect=True)
        return obs

    def requests(self, case, obs):
        if obs["write"][0] != "ok":
            return []
        j = case["inst"]
        if case["kind"] == "gate":
            return [{"op": "io.parse", "entry": "file", "cls": case["cls"], "base": obs["name"], "ext": case["ext"],
                     "content": obs["write"][1], "floats": iolib.float_table(obs["write"][1])}]
        var = obs["variant"]
        name, ext = "v_" + obs["name"], obs["ext"]
        reqs = []
        for ho in (False, True):
            base = {"content": var, "floats": iolib.float_table(var), "header_only": ho, "cls": j["cls"]}
            reqs += [dict(base, op="io.parse", entry="file", base=name, ext=ext),
                     dict(base, op="io.parse", entry="str", data_type=ext, file_name=name),
                     dict(base, op="io.parse", entry="url", stem=name.split(".")[0], ext=ext),
                     dict(base, op="io.parse", entry="get", base=name, ext=ext)]
        return reqs

    def nontrivial_key(self, case, obs):
        if case["kind"] == "gate":
            return None
        j = case["inst"]
        return repr((j, case["eol"], case["pad_seed"])) if len(j.get("multiplicity", j.get("weights", []))) > 1 else None

    def judge(self, case, obs, replies):
        out = []
        P = lambda what, site: out.append(Problem("violation", case, what, site))
        D = lambda what, site: out.append(Problem("disagreement", case, what, site))
        if obs["write"][0] != "ok":
            D(f"write failed {obs['write']}", "write")
            return out
        if case["kind"] == "gate":
            for entry in ("file", "str"):
                if obs[entry] != ("exc", "TypeError"):
                    P(f"{entry}: class {case['cls']} given extension {case['ext']!r} must raise TypeError, got {obs[entry]}",
                      "gate/" + entry)
                elif not obs[entry + "_empty"]:
                    P(f"{entry}: ballots or edges were loaded before the TypeError", "gate/leak")
            if "get" in obs and obs["get"] != ("exc", "TypeError"):
                P(f"get_parsed_instance on unknown extension {case['ext']!r}: {obs['get']}", "gate/get")
            if replies and replies[0] != {"exc": "TypeError"}:
                D(f"model gate gives {replies[0]}", "model/gate")
            return out
        canon_res = obs["canonical"]
        if canon_res[0] != "ok":
            P(f"parse_str of the written content failed: {canon_res}", "canonical")
            return out
        ref = iolib.canon(canon_res[1])
        skip = ("file_name",)
        for entry, r in obs["full"].items():
            if r[0] != "ok":
                P(f"{entry} fails with {r[1]} on content with line ends {case['eol']!r} and padded lines", "entry/" + entry)
                continue
            # the content carries its own `# FILE NAME` line, which every entry point reads (only parse_url keeps
            # the name of the URL)
            d = iolib.diff(ref, iolib.canon(r[1]), skip=skip if entry == "url" else ())
            if d:
                P(f"{entry} on the re-rendered content differs from the canonical parse on {d}", "entry/" + entry)
        for entry, r in obs["header_only"].items():
            if r[0] != "ok":
                P(f"{entry}(header_only=True) fails with {r[1]}", "header_only/" + entry)
                continue
            h = r[1]
            if not empty_containers(h):
                P(f"{entry}(header_only=True) loaded ballots or edges", "header_only/leak")
            dh = [f for f in iolib.diff({"header": ref["header"]}, {"header": iolib.canon(h)["header"]},
                                         skip=skip if entry == "url" else ())]
            keys = {"ord": ["num_unique"], "cat": ["num_unique", "num_categories", "categories_name"], "mat": ["num_edges"]}[h["cls"]]
            dh += [k for k in keys if iolib.canon(h)[k] != ref[k]]
            if dh:
                P(f"{entry}(header_only=True) differs in metadata/counts {dh}", "header_only/" + entry)
        for entry, r in obs.get("header_only_auto", {}).items():
            base = obs["header_only"].get(entry)
            if base is None or base[0] != "ok":
                continue
            if r[0] != "ok":
                P(f"{entry}(header_only=True, autocorrect=True) fails with {r[1]}", "header_only_auto/" + entry)
                continue
            # names may repeat in the generated content (autocorrect renames them): counts and metadata only
            dh = iolib.diff(iolib.canon(base[1]), iolib.canon(r[1]), skip=("file_name", "alternatives_name", "categories_name"))
            if dh:
                P(f"{entry}(header_only=True, autocorrect=True) differs from header_only=True alone on {dh} (no ballot "
                  "is read, so there is nothing to recount)", "header_only_auto/" + entry)
        # model
        names = ["file", "str", "url", "get"]
        for k, rep in enumerate(replies[:8]):
            entry, ho = names[k % 4], k >= 4
            r = (obs["header_only"] if ho else obs["full"])[entry]
            if ("ok" in rep) != (r[0] == "ok"):
                D(f"model {entry}(header_only={ho}) {'succeeds' if 'ok' in rep else rep} but implementation {r[0]} {r[1] if r[0] != 'ok' else ''}",
                  "model/" + entry)
            elif "ok" in rep:
                d = iolib.diff(iolib.canon(rep["ok"]), iolib.canon(r[1]), skip=skip if entry == "url" else ())
                if d:
                    D(f"model and implementation differ for {entry}(header_only={ho}) on {d}", "model/" + entry)
        return out

    def shrink_candidates(self, case):
        from harness.props.c01 import shrink_inst
        for c in shrink_inst(case):
            yield c
        if case.get("eol") != "\n":
            yield dict(case, eol="\n")


PROP = C10
