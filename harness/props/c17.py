from math import ceil

from harness.core import Prop, Problem, call
from harness import gen


def tupb(b):
    return tuple(tuple(int(a) for a in c) for c in b)


class C17(Prop):
    """CategoricalInstance.from_ordinal (three truncation parameters) and factorise_instance vs the
    Lean model; every produced ballot is checked by the Lean coarsening checker (partition of the
    ranked alternatives, rank order, no class split); voters are conserved under collapse."""

    id = "C17"
    level = "proof"
    design_ref = "§8 C17"
    level_text = ("Lean theorems about the model of from_ordinal / factorise_instance: each ballot is a coarsening of "
                  "its source order (partition in rank order, no indifference class split), absolute truncators follow "
                  "the documented size rule, common length after padding, no ballot listed twice and multiplicities "
                  "sum to the source's voters also when orders collapse; factorise counts occurrences. The model is "
                  "compared with the real code on every run and the real ballots are judged by the Lean checker")
    level_note = ("Lean kernel + standard axioms; hand-written model; relative truncators enter the model as per-order "
                  "absolute sizes computed by the harness with the library's formula int(ceil(len(order)*t)) "
                  "(float arithmetic not modelled)")
    theorems = [
        "PrefVerif.C17.isCoarsening_iff",
        "PrefVerif.C17.catBySize_rule",
        "PrefVerif.C17.catByCount_rule",
        "PrefVerif.C17.rawBallots_coarsening",
        "PrefVerif.C17.padTo_coarsening",
        "PrefVerif.C17.fromOrdinal_conserves",
        "PrefVerif.C17.factorise_counts",
        "PrefVerif.C17.catBySize_rule_strict",
        "PrefVerif.C17.catByCount_rule_strict",
        "PrefVerif.C17.sizeRuleStrict_complete",
        "PrefVerif.C17.countRuleStrict_complete",
    ]
    rule = ("random ordinal instances (strict/weak, complete or not, multiplicities 1-20) with coarse truncators so "
            "that distinct orders collapse to one ballot in a large share of cases; each of the three parameters; "
            "zero/two parameters for the ValueError guards; raw ballot lists with repetitions for factorise_instance; "
            "non-trivial = at least two source orders (resp. a repeated ballot)")
    budget = {"quick": 400, "thorough": 40000}
    anchors = [("preflibtools.instances.preflibinstance.categorical", "CategoricalInstance." + n) for n in
               ("from_ordinal", "factorise_instance", "recompute_cardinality_param")]

    def corpus(self):
        return [
            {"kind": "from_ordinal", "type": "toi", "alts": [4, 5],
             "profile": [[[[5], [4]], 1], [[[5, 4]], 1]], "mode": "size", "params": [2]},
            {"kind": "factorise", "prefs": [[[1], []], [[2], []], [[1], []], [[1], []]], "mult": [], "reset": False},
        ] + super().corpus()

    def generate(self, rng, n, deep=False):
        for i in range(n):
            r = rng.random()
            if r < 0.2:
                m = rng.randint(1, 4)
                k = rng.randint(1, 3)
                pool = []
                for _ in range(rng.randint(1, 4)):
                    alts = gen.perm(rng, range(1, m + 1))
                    cuts = sorted(rng.randint(0, m) for _ in range(k - 1))
                    pool.append([alts[a:b] for a, b in zip([0] + cuts, cuts + [m])])
                nraw = rng.randint(1, 8)
                if rng.random() < 0.06:
                    nraw = rng.choice([260, 300, 700])      # scale: hundreds of raw ballots, repetitions scattered
                prefs = [rng.choice(pool) for _ in range(nraw)]
                reset = rng.random() < 0.5
                mult = []
                if reset:
                    seen = []
                    for b in prefs:
                        if b not in seen and rng.random() < 0.6:
                            seen.append(b)
                            mult.append([b, rng.randint(1, 9)])
                yield {"kind": "factorise", "prefs": prefs, "mult": mult, "reset": reset}
                continue
            c = gen.ordinal_case(rng, m=rng.randint(1, 6), n=rng.randint(1, 6), max_mult=20,
                                 tie_p=rng.choice([0.2, 0.5, 0.7]),
                                 style="concat" if rng.random() < 0.1 else None)
            mode = rng.choice(["size", "count", "relative", "size", "count"])
            if len(c["alts"]) >= 9 and rng.random() < 0.7 and r >= 0.27:
                # scale: ten or more categories
                kk = rng.randint(10, min(14, len(c["alts"]) + 2))
                mode = rng.choice(["size", "count"])
                yield {"kind": "from_ordinal", **c, "mode": mode, "params": [1] * kk if mode == "size" else
                       [rng.choice([1, 1, 2]) for _ in range(kk)]}
                continue
            if r < 0.27:
                yield {"kind": "guard", **c, "which": rng.choice(["none", "two", "three"])}
                continue
            if mode == "relative":
                k = rng.randint(1, 3)
                params = [rng.choice([0.25, 0.5, 1, 2, 3, 0.1, 0.7]) for _ in range(k)]
            else:
                params = [rng.randint(1, 4) for _ in range(rng.randint(1, 3))]
            yield {"kind": "from_ordinal", **c, "mode": mode, "params": params}

    def _from_ordinal(self, case):
        from preflibtools.instances import CategoricalInstance
        inst = gen.inst_of(case)
        kw = {"size": "size_truncators", "count": "num_indif_classes", "relative": "relative_size_truncators"}
        r = call(CategoricalInstance.from_ordinal, inst, **{kw[case["mode"]]: list(case["params"])})
        if r[0] != "ok":
            return r
        ci = r[1]
        return ("ok", {
            "preferences": [tupb(b) for b in ci.preferences],
            "multiplicity": [[tupb(b), int(m)] for b, m in ci.multiplicity.items()],
            "num_voters": ci.num_voters, "num_unique_preferences": ci.num_unique_preferences,
            "num_categories": ci.num_categories, "categories_name": {str(k): v for k, v in ci.categories_name.items()},
            "num_alternatives": ci.num_alternatives, "data_type": ci.data_type,
            "alts": sorted(ci.alternatives_name),
        })

    def run_impl(self, case):
        from preflibtools.instances import CategoricalInstance
        k = case["kind"]
        self.count("kind:" + k + ("/" + case["mode"] if "mode" in case else ""))
        if k == "from_ordinal":
            return {"res": self._from_ordinal(case)}
        if k == "guard":
            inst = gen.inst_of(case)
            kw = {"none": {}, "two": {"size_truncators": [1], "num_indif_classes": [1]},
                  "three": {"size_truncators": [1], "num_indif_classes": [1], "relative_size_truncators": [1]}}[case["which"]]
            r = call(CategoricalInstance.from_ordinal, inst, **kw)
            return {"res": r if r[0] == "exc" else ("ok", "returned")}
        ci = CategoricalInstance()
        ci.preferences = [tupb(b) for b in case["prefs"]]
        ci.multiplicity = {tupb(b): m for b, m in case["mult"]}
        r = call(ci.factorise_instance, reset_multiplicity=case["reset"])
        if r[0] == "ok":
            r = ("ok", {"preferences": [tupb(b) for b in ci.preferences],
                        "multiplicity": {tupb(b): int(m) for b, m in ci.multiplicity.items()}})
        return {"res": r}

    def requests(self, case, obs):
        k = case["kind"]
        if k == "guard":
            return []
        if k == "factorise":
            return [{"op": "c17.factorise", "prefs": case["prefs"], "mult": case["mult"], "reset": case["reset"]}]
        d = {"op": "c17.from_ordinal", "profile": case["profile"], "mode": case["mode"]}
        if case["mode"] == "size":
            d["tps"] = case["params"]
        elif case["mode"] == "count":
            d["nums"] = case["params"]
        else:
            ps = list(case["params"])
            if sum(ps) != 1:
                t = sum(ps)
                ps = [x / t for x in ps]
            d["perOrder"] = [[int(ceil(len(o) * x)) for x in ps] for o, _ in case["profile"]]
        if obs["res"][0] == "ok":
            d["implPrefs"] = [list(map(list, b)) for b in obs["res"][1]["preferences"]]
        return [d]

    def nontrivial_key(self, case, obs):
        if case["kind"] == "guard":
            return None
        if case["kind"] == "factorise":
            return repr(case) if len(case["prefs"]) > len({repr(b) for b in case["prefs"]}) else None
        return repr(case) if len(case["profile"]) > 1 else None

    def judge(self, case, obs, replies):
        out = []
        k = case["kind"]
        res = obs["res"]
        P = lambda what, site: out.append(Problem("violation", case, what, site))
        if k == "guard":
            if res != ("exc", "ValueError"):
                out.append(Problem("disagreement", case, f"from_ordinal with {case['which']} parameters: {res}, "
                                   "expected ValueError", "guard"))
            return out
        rep = replies[0]
        if k == "factorise":
            if res[0] != "ok":
                P(f"factorise_instance raised {res}", "factorise/call")
                return out
            prefs, mult = res[1]["preferences"], res[1]["multiplicity"]
            if len(set(prefs)) != len(prefs) or set(prefs) != {tupb(b) for b in case["prefs"]}:
                P(f"factorise_instance leaves the ballot list {prefs}: not the duplicate-free list of the ballots", "factorise/list")
            base = {} if case["reset"] else {tupb(b): m for b, m in case["mult"]}
            exp = dict(base)
            for b, c in rep["specCounts"]:
                exp[tupb(b)] = exp.get(tupb(b), 0) + c
            if mult != exp:
                P(f"multiplicities {mult} do not count the occurrences {exp}", "factorise/mult")
            if {tupb(b): m for b, m in rep["multiplicity"]} != exp or [tupb(b) for b in rep["preferences"]] != [tupb(b) for b, _ in rep["specCounts"]]:
                out.append(Problem("disagreement", case, "Lean model of factorise differs from spec", "model/spec"))
            return out
        # from_ordinal
        if res[0] != "ok":
            P(f"from_ordinal raised {res}", "from_ordinal/call")
            return out
        o = res[1]
        st = rep["state"]
        mult = {tupb(b): m for b, m in o["multiplicity"]}
        prefs = o["preferences"]
        collapsed = len(case["profile"]) > len(mult)
        self.count("collapse" if collapsed else "no-collapse")
        if not (rep["implEvery"] and rep["implCovers"]):
            P("some ballot does not partition the alternatives its source order ranks into whole consecutive "
              f"indifference classes: ballots {prefs}", "from_ordinal/partition")
        if len(set(prefs)) != len(prefs):
            P(f"a ballot is listed twice: {prefs}", "from_ordinal/duplicate")
        if sum(mult.values()) != rep["sourceVoters"] or o["num_voters"] != rep["sourceVoters"]:
            P(f"multiplicities sum to {sum(mult.values())} (num_voters {o['num_voters']}), the source has "
              f"{rep['sourceVoters']} voters", "from_ordinal/voters")
        if len({len(b) for b in prefs}) != 1 or len(prefs[0]) != o["num_categories"] or len(o["categories_name"]) != o["num_categories"]:
            P("ballots are not padded to a common number of categories = num_categories", "from_ordinal/padding")
        if o["num_unique_preferences"] != len(prefs) or set(prefs) != set(mult):
            P("num_unique_preferences / preferences / multiplicity keys inconsistent", "from_ordinal/unique")
        exp = {tupb(b): m for b, m in st["multiplicity"]}
        if mult != exp and case["mode"] in ("size", "count"):
            P(f"ballots with multiplicities {o['multiplicity']} differ from the documented rule's {st['multiplicity']}",
              "from_ordinal/rule")
        elif mult != exp:
            out.append(Problem("disagreement", case, f"relative truncators: implementation {o['multiplicity']}, model "
                               f"{st['multiplicity']}", "from_ordinal/relative"))
        if not rep["modelCoarse"] or st["numVoters"] != rep["sourceVoters"]:
            out.append(Problem("disagreement", case, "Lean model violates the Lean spec", "model/spec"))
        if o["num_categories"] != st["numCategories"] and not out:
            out.append(Problem("disagreement", case, "num_categories differs from the model", "from_ordinal/ncat"))
        return out

    def shrink_candidates(self, case):
        if case["kind"] == "factorise":
            for i in range(len(case["prefs"])):
                if len(case["prefs"]) > 1:
                    yield dict(case, prefs=case["prefs"][:i] + case["prefs"][i + 1:])
            return
        for c in gen.shrink_profile_case(case):
            yield c
        if "params" in case and len(case["params"]) > 1:
            for i in range(len(case["params"])):
                yield dict(case, params=case["params"][:i] + case["params"][i + 1:])


PROP = C17
