from harness.core import Problem
from harness import iolib
from harness.props.c01 import C01


class C09(C01):
    """MatchingInstance.write -> get_parsed_instance -> write on generated weighted digraphs (self-loops,
    antiparallel and overwritten edges, weights over the whole finite float range, compared by repr =
    bit pattern); independent Lean reader; Lean model of the graph container and of write/parse."""

    id = "C09"
    design_ref = "§8 C09"
    level_text = ("Lean theorems about the model of WeightedDiGraph and MatchingInstance.write/parse, with the weight "
                  "type opaque: same edge set with identical weights, node set, names, num_edges = number of edges, "
                  "num_voters = num_alternatives, byte-identical second write — under the two stated facts about "
                  "float repr (read(show w) = w; show w has no comma, space or newline), which are checked on every "
                  "weight drawn")
    level_note = ("Lean kernel + standard axioms; hand-written model; float()/repr() are parameters of the model with "
                  "the stated contract (hypotheses of the theorems, exercised at run time on every generated weight)")
    assumptions = ["float(repr(x)) == x bit for bit for every finite x; repr(x) contains no ',', ' ' or line break"]
    theorems = [
        "PrefVerif.C09.roundtrip",
        "PrefVerif.C09.independent_reader",
        "PrefVerif.C09.addEdge_wf",
        "PrefVerif.C09.wfGraph_built",
    ]
    rule = ("random matching instances: 1-6 nodes with sparse ids, 1-10 add_edge calls incl. self-loops, antiparallel "
            "and overwritten edges, weights: integers, 1/3, 1e300, subnormals, 2^53+2, -0.0, uniform and random bit "
            "patterns; the add_edge history (overwrites included) is replayed with edges()/outgoing_edges()/nodes() queried "
            "in between and the built graph is observed through its public API; 10 % of the instances are written without "
            "a file_name and written twice; non-trivial = at least 2 edges")
    anchors = [("preflibtools.instances.preflibinstance.matching", "MatchingInstance.parse"),
               ("preflibtools.instances.preflibinstance.matching", "MatchingInstance.write"),
               ("preflibtools.instances.preflibinstance.matching", "WeightedDiGraph.add_edge"),
               ("preflibtools.instances.preflibinstance.matching", "WeightedDiGraph.edges"),
               ("preflibtools.instances.preflibinstance.matching", "WeightedDiGraph.outgoing_edges")]
    cls_gen = staticmethod(iolib.gen_matching)

    def run_impl(self, case):
        obs = super().run_impl(case)
        if case["kind"] != "selftest":
            # the two assumed facts about repr/float, on every weight of this case
            bad = []
            for _, w in case["inst"]["weights"]:
                x = float(w)
                r = repr(x)
                if repr(float(r)) != r or float(r).hex() != x.hex() or any(ch in r for ch in ", \n\r"):
                    bad.append(w)
            obs["repr_assumption_violated"] = bad
        return obs

    def judge(self, case, obs, replies):
        out = super().judge(case, obs, replies)
        if case["kind"] != "selftest":
            if obs.get("repr_assumption_violated"):
                out.append(Problem("disagreement", case, "assumption on float repr fails for "
                                   + repr(obs["repr_assumption_violated"]), "assumption/repr"))
            if "built" in obs:
                d = iolib.diff(iolib.canon(case["inst"]), iolib.canon(obs["built"]),
                               skip=("num_edges",))
                if d:
                    out.append(Problem("violation", case, f"after the add_edge calls of this case the graph API "
                                       f"(edges / outgoing_edges / nodes) does not show the edges added: differs on {d}",
                                       "graph-api/" + ",".join(d)))
            res = obs.get("parsed")
            if res and res[0] == "ok":
                d = res[1]
                if d["header"]["num_voters"] != d["header"]["num_alternatives"]:
                    out.append(Problem("violation", case, "num_voters != num_alternatives after parsing", "num_voters"))
                if d["num_edges"] != len(d["weights"]) or d["num_edges"] != sum(len(s) for _, s in d["nodes"]):
                    out.append(Problem("violation", case, "num_edges is not the number of edges", "num_edges"))
        return out


PROP = C09
