from harness.core import Prop, Problem, call
from harness import gen
from harness.props.c11 import sp_votes


def dedup(orders):
    seen, out = set(), []
    for o in orders:
        if repr(o) not in seen:
            seen.add(repr(o))
            out.append(o)
    return out


class C12(Prop):
    """approx_SP_voter_deletion_ILP, approx_SP_alternative_deletion_ILP (soc and toc) and
    k_alternative_deletion (soc): reported optimum vs the Lean brute-force minimum (m <= 6), every
    certificate (axis + deletion set) validated by the Lean checkers, the two alternative-deletion
    methods compared with each other on strict profiles."""

    id = "C12"
    level = "proof"
    design_ref = "§8 C12"
    level_text = ("Lean: (1) the statement-level model of the Erdelyi-Lackner-Pfandler dynamic programme behind "
                  "k_alternative_deletion (incl. CPython set order; same output as the real function on 12 000+ profiles and "
                  "on every run) is proved correct: its answer is a valid certificate (C12DP.deletion_cert: removed = "
                  "complement of the axis, restricted profile single-peaked on the axis) and it is OPTIMAL "
                  "(C12Opt.deletion_optimal: no larger set of alternatives admits a single-peaked restriction, for every "
                  "iteration order of the sets; C12Opt.deletion_sp_complete: a single-peaked profile loses nothing); "
                  "(2) the three ILP constraint systems are modelled and compared with the real python-mip models on every "
                  "case; their semantics is proved: an integral point is feasible iff the orders (alternatives) whose deletion "
                  "variable is 0 are single-peaked on the encoded axis (votdel_*, altdel_* theorems), so the ILP optimum is the "
                  "true minimum for every solver returning an optimal integral point (the CBC contract, exercised on every "
                  "run against the verified optimum, not proved); (3) verified certificate checkers and brute-force optima")
    level_note = ("Lean kernel + standard axioms; hand-written models tied to the code by differential testing; CBC "
                  "through python-mip is a contract (sizes kept below 20 alternatives so the 5% MIP gap cannot hide a unit)")
    technique = ("Lean 4 proof (validity and optimality of the dynamic programme, semantics of the ILPs) about executable "
                 "models + model/implementation correspondence check; solver contract tested against verified optima")
    theorems = [
        "PrefVerif.C12DP.deletion_cert",
        "PrefVerif.C12DP.axis_removed_perm",
        "PrefVerif.C12DP.axis_nodup",
        "PrefVerif.C12DP.axis_spOnSubset",
        "PrefVerif.C12DP.axis_ne_nil",
        "PrefVerif.C12Opt.deletion_optimal",
        "PrefVerif.C12Opt.deletion_sp_complete",
        "PrefVerif.C15y.deletion_value_eq_min",
        "PrefVerif.ILPP.votdel_axis_feasible",
        "PrefVerif.ILPP.votdel_feasible_axis",
        "PrefVerif.ILPP.altdel_feasible_axis",
        "PrefVerif.ILPP.altdel_axis_feasible",
        "PrefVerif.Specs.mem_sublists",
        "PrefVerif.Specs.spOnSubset_iff",
        "PrefVerif.Specs.minAltDeletion_spec",
        "PrefVerif.Specs.minVoterDeletion_spec",
    ]
    rule = ("soc / toc profiles with 2-6 alternatives and 1-5 distinct orders: random, planted single-peaked plus "
            "k inserted alternatives / perturbed voters, weak orders with several alternatives tied at the top; "
            "k_alternative_deletion additionally on planted profiles up to m = 12 (certificate + agreement with the "
            "ILP); non-trivial = optimum > 0 or >= 3 orders")
    budget = {"quick": 60, "thorough": 1500}
    anchors = [("preflibtools.properties.subdomains.ordinal.singlepeaked.singlepeakedness", n) for n in
               ("approx_SP_voter_deletion_ILP", "approx_SP_alternative_deletion_ILP", "sp_ILP_cons_ones_vot_del_cstr",
                "sp_ILP_cons_ones_alt_del_cstr", "sp_cons_ones_matrix", "sp_ILP_trans_cstr", "sp_ILP_total_cstr",
                "sp_ILP_pos_cstr")] + \
              [("preflibtools.properties.subdomains.ordinal.singlepeaked.k_alternative_deletion", n) for n in
               ("k_alternative_deletion", "longest_single_peaked_axis", "get_L_sets", "eligible_alternatives",
                "last_check", "place", "case_2", "case_3", "check_case_4", "boundary")]

    def corpus(self):
        return [{"kind": "opt", "type": "toc", "alts": [1, 2, 3, 4],
                 "orders": [[[1, 2], [3], [4]], [[4, 3], [2], [1]], [[1, 4], [2, 3]], [[2], [1], [3], [4]]]}] + super().corpus()

    def generate(self, rng, n, deep=False):
        for i in range(n):
            m = rng.choice([2, 3, 4, 4, 5, 5, 6])
            alts = gen.alt_ids(rng, m)
            weak = i % 3 == 0
            nn = rng.randint(1, 5)
            r = rng.random()
            if r < 0.5:
                axis = gen.perm(rng, alts)
                orders = sp_votes(rng, axis, nn, weak)
                for _ in range(rng.randint(0, 2)):
                    k = rng.randrange(len(orders))
                    flat = [a for c in orders[k] for a in c]
                    if m >= 2:
                        a, b = rng.sample(range(m), 2)
                        flat[a], flat[b] = flat[b], flat[a]
                    it = iter(flat)
                    orders[k] = [[next(it) for _ in c] for c in orders[k]]
            else:
                orders = []
                for _ in range(nn):
                    if weak:
                        orders.append([list(c) for c in gen.weak_order(rng, alts, complete=True, tie_p=rng.choice([0.3, 0.6]))])
                    else:
                        orders.append([[a] for a in gen.perm(rng, alts)])
            orders = dedup(orders)
            t = gen.infer_type([tuple(map(tuple, o)) for o in orders], m)
            yield {"kind": "opt", "type": t, "alts": gen.perm(rng, alts) if rng.random() < 0.5 else alts, "orders": orders}
        for i in range(5 * n):
            # many small strict profiles for the dynamic programme alone (fast): brute-force optimum + Lean model
            m = rng.choice([3, 4, 5, 5, 6])
            alts = gen.alt_ids(rng, m, zero_ok=True)
            orders = dedup([[[a] for a in gen.perm(rng, alts)] for _ in range(rng.randint(2, 4))])
            yield {"kind": "dpsmall", "type": "soc", "alts": gen.perm(rng, alts) if rng.random() < 0.5 else alts,
                   "orders": orders}
        for i in range(max(2, n // 10)):
            # the same instance object analysed, grown through the public API, and analysed again
            m = rng.choice([3, 4, 5])
            alts = list(range(1, m + 1))
            first = dedup([[[a] for a in gen.perm(rng, alts)] for _ in range(rng.randint(1, 3))])
            more = dedup([[[a] for a in gen.perm(rng, alts)] for _ in range(rng.randint(1, 3))])
            yield {"kind": "grow", "type": "soc", "alts": alts, "first": first, "more": more}
        for i in range(max(3, n // 4)):
            m = rng.choice([7, 8, 10, 12])
            alts = gen.alt_ids(rng, m)
            axis = gen.perm(rng, alts)
            orders = dedup(sp_votes(rng, axis, rng.randint(2, 6)))
            yield {"kind": "dp", "type": "soc", "alts": alts, "orders": orders}

    def run_impl(self, case):
        from preflibtools.properties.subdomains.ordinal.singlepeaked import singlepeakedness as S
        from preflibtools.properties.subdomains.ordinal.singlepeaked.k_alternative_deletion import k_alternative_deletion
        if case["kind"] == "grow":
            from preflibtools.instances import OrdinalInstance
            inst = OrdinalInstance()
            inst.append_order_list([tuple(map(tuple, o)) for o in case["first"]])
            with __import__("harness.core", fromlist=["quiet_fd1"]).quiet_fd1():
                for f in (S.approx_SP_voter_deletion_ILP, S.approx_SP_alternative_deletion_ILP):
                    call(f, inst, limit=120)            # first analysis: result not judged here
                call(k_alternative_deletion, inst, limit=60)
            inst.append_order_list([tuple(map(tuple, o)) for o in case["more"]])
            case = dict(case, kind="opt", alts=[int(a) for a in inst.alternatives_name],
                        orders=[[list(c) for c in o] for o in inst.orders], _inst=inst)
        prof = [(tuple(map(tuple, o)), 1) for o in case["orders"]]
        if "_inst" in case:
            mk = lambda: case["_inst"]                 # the SAME object as in the first analysis
        else:
            mk = lambda: gen.make_ordinal(prof, alts=case["alts"], data_type=case["type"])
        self.count(case["kind"] + ":" + case["type"])
        obs = {}

        def ilp(f):
            from harness import ilpcap
            store = []
            with ilpcap.capture(store):
                r = call(f, mk(), limit=120)
            obs.setdefault("captures", {})[f.__name__] = store[0] if len(store) == 1 else None
            if r[0] != "ok":
                return r
            val, status, axis, deleted = r[1]
            try:
                return ("ok", {"value": float(val) if val is not None else None, "status": str(status),
                               "axis": [int(a) for a in axis] if axis is not None else None,
                               "deleted": [int(x) for x in deleted] if deleted is not None else None})
            except Exception as e:  # noqa
                return ("ok", {"malformed": repr(r[1])[:200]})
        if case["kind"] == "opt":
            obs["vd"] = ilp(S.approx_SP_voter_deletion_ILP)
            obs["ad"] = ilp(S.approx_SP_alternative_deletion_ILP)
        if "_inst" in case:
            obs["grown"] = {"alts": case["alts"], "orders": case["orders"]}
        if case["type"] == "soc":
            r = call(k_alternative_deletion, mk(), limit=60)
            if r[0] == "ok":
                try:
                    r = ("ok", {"axis": [int(a) for a in r[1][0]], "removed": [int(a) for a in r[1][1]]})
                except Exception:
                    r = ("ok", {"malformed": repr(r[1])[:200]})
            obs["dp"] = r
        return obs

    def requests(self, case, obs):
        if "grown" in obs:
            case = dict(case, kind="opt", alts=obs["grown"]["alts"], orders=obs["grown"]["orders"])
        certs = {}
        alts = case["alts"]
        r = obs.get("vd")
        if r and r[0] == "ok" and r[1].get("axis") is not None:
            certs["vd_axis"], certs["vd_deleted"] = r[1]["axis"], r[1]["deleted"]
        r = obs.get("ad")
        if r and r[0] == "ok" and r[1].get("axis") is not None:
            certs["ad_axis"] = r[1]["axis"]
            certs["ad_deleted"] = [alts[i] for i in r[1]["deleted"] if 0 <= i < len(alts)]
        r = obs.get("dp")
        if r and r[0] == "ok" and "axis" in r[1]:
            certs["dp_axis"], certs["dp_deleted"] = r[1]["axis"], r[1]["removed"]
        reqs = [{"op": "dom.nearly", "alts": alts, "orders": case["orders"], "brute": len(alts) <= 6,
                 "certs": certs}]
        if case["type"] == "soc":
            reqs.append({"op": "kalt.deletion", "alts": alts, "orders": [[c[0] for c in o] for o in case["orders"]]})
        self._cap_order = []
        for fname, which in (("approx_SP_voter_deletion_ILP", "votdel"), ("approx_SP_alternative_deletion_ILP", "altdel")):
            cap = obs.get("captures", {}).get(fname)
            if cap is not None:
                d = {"op": "ilp.model", "which": which, "alts": alts, "orders": case["orders"]}
                if cap["solution"] is not None:
                    d["solution"] = [[k, [round(v), 1]] for k, v in cap["solution"].items()]
                reqs.append(d)
                self._cap_order.append(fname)
        return reqs

    def nontrivial_key(self, case, obs):
        if case["kind"] == "grow":
            return repr(case)
        return repr((case["alts"], case["orders"])) if len(case["orders"]) >= 2 else None

    def judge(self, case, obs, replies):
        if "grown" in obs:
            shown = case
            case = dict(case, kind="opt", alts=obs["grown"]["alts"], orders=obs["grown"]["orders"])
            probs = self.judge(case, {k: v for k, v in obs.items() if k != "grown"}, replies)
            for p in probs:
                p.case = shown
                p.what = "after analysing, appending more orders to the same instance and analysing again: " + p.what
            return probs
        rep = replies[0]
        out = []
        P = lambda what, site: out.append(Problem("violation", case, what, site))
        for key, name, minkey, certkey in (("vd", "approx_SP_voter_deletion_ILP", "minVoter", "voterCert"),
                                           ("ad", "approx_SP_alternative_deletion_ILP", "minAlt", "altCert")):
            r = obs.get(key)
            if r is None:
                continue
            if r[0] != "ok" or "malformed" in r[1] or r[1]["axis"] is None:
                P(f"{name} failed: {r}", key + "/call")
                continue
            v = r[1]
            if abs(v["value"] - round(v["value"])) > 1e-6 or len(v["deleted"]) != round(v["value"]):
                P(f"{name}: deletion list {v['deleted']} does not have the reported size {v['value']}", key + "/size")
            if rep[certkey] is not True:
                P(f"{name}: after removing {v['deleted']} the profile is not single-peaked on the returned axis "
                  f"{v['axis']}", key + "/certificate")
            if rep[minkey] is not None and round(v["value"]) != rep[minkey]:
                P(f"{name} reports {v['value']}, the minimum is {rep[minkey]}", key + "/optimum")
        from collections import Counter
        from harness import ilpcap
        fnames = [f for f in ("approx_SP_voter_deletion_ILP", "approx_SP_alternative_deletion_ILP")
                  if obs.get("captures", {}).get(f) is not None]
        dp_model = replies[1] if case["type"] == "soc" else None
        for fname, mrep in zip(fnames, replies[(2 if case["type"] == "soc" else 1):]):
            cap = obs["captures"][fname]
            mine, theirs = set(ilpcap.model_constraints(mrep)), set(cap["constraints"])     # as sets: repeats are drift
            if mine != theirs:
                diff = list(theirs - mine)[:2] + list(mine - theirs)[:2]
                out.append(Problem("disagreement", case, f"{fname}: the ILP handed to the solver differs from the model's "
                                   f"constraint system ({len(theirs - mine)} extra, "
                                   f"{len(mine - theirs)} missing), e.g. {diff}", "model/ilp-constraints"))
            elif mrep["solutionFeasible"] is False:
                out.append(Problem("disagreement", case, f"{fname}: the solver's (rounded) solution violates the model's "
                                   "constraints", "model/ilp-solution"))
        r = obs.get("dp")
        if r is not None:
            if r[0] != "ok" or "malformed" in r[1]:
                P(f"k_alternative_deletion failed: {r}", "dp/call")
            else:
                v = r[1]
                if rep["dpCert"] is not True:
                    P(f"k_alternative_deletion: axis {v['axis']} / removed {v['removed']} is not a valid certificate",
                      "dp/certificate")
                if rep["minAlt"] is not None and len(v["removed"]) != rep["minAlt"]:
                    P(f"k_alternative_deletion removes {len(v['removed'])} alternatives, the minimum is {rep['minAlt']}",
                      "dp/optimum")
                a = obs.get("ad")
                if a and a[0] == "ok" and a[1].get("value") is not None and round(a[1]["value"]) != len(v["removed"]):
                    P("the two alternative-deletion methods report different optima on a strict profile", "agree")
                if case["kind"] == "dp" and len(v["removed"]) != 0:
                    P("k_alternative_deletion removes alternatives from a single-peaked profile", "dp/optimum")
                if dp_model is not None:
                    # statement-faithful Lean model of the dynamic programme (incl. CPython set order)
                    if len(dp_model["removed"]) != len(v["removed"]):
                        out.append(Problem("disagreement", case, f"model removes {dp_model['removed']}, implementation "
                                           f"{v['removed']}", "model/dp"))
                    elif dp_model["axis"] != v["axis"]:
                        self.count("dp-axis-drift")
        return out

    def shrink_candidates(self, case):
        if case["kind"] == "grow":
            for key in ("first", "more"):
                for i in range(len(case[key])):
                    if len(case[key]) > 1:
                        yield dict(case, **{key: case[key][:i] + case[key][i + 1:]})
            return
        os_ = case["orders"]
        for i in range(len(os_)):
            if len(os_) > 1:
                yield dict(case, orders=os_[:i] + os_[i + 1:])
        if len(case["alts"]) > 2:
            for x in case["alts"]:
                o2 = [[[a for a in c if a != x] for c in o] for o in os_]
                o2 = [[c for c in o if c] for o in o2]
                if len({repr(o) for o in o2}) == len(o2):
                    t = gen.infer_type([tuple(map(tuple, o)) for o in o2], len(case["alts"]) - 1)
                    yield dict(case, alts=[a for a in case["alts"] if a != x], orders=o2, type=t)


PROP = C12
