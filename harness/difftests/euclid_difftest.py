"""Differential test: Lean model of `is_one_euclidean` up to the LP (driver op "euc.lp") against the
real preflibtools code.  Run:  cd /tmp && PYTHONPATH=/repo /venv/bin/python /tmp/agents/EUC/difftest.py [N] [seed]
"""
import collections
import contextlib
import json
import os
import random
import subprocess
import sys
import warnings
from fractions import Fraction

sys.path.insert(0, os.path.dirname(os.path.abspath(__file__)))
import ilpcap  # noqa: E402

from preflibtools.instances import OrdinalInstance  # noqa: E402
from preflibtools.properties.subdomains.ordinal import euclidean as euc  # noqa: E402
from preflibtools.properties.subdomains.ordinal.singlecrossing import is_single_crossing  # noqa: E402

DRIVER = os.path.join(os.path.dirname(os.path.abspath(__file__)), "lean", ".lake", "build", "bin", "prefdriver")


@contextlib.contextmanager
def quiet_fd1():
    """CBC prints on the C-level stdout."""
    sys.stdout.flush()
    saved = os.dup(1)
    devnull = os.open(os.devnull, os.O_WRONLY)
    os.dup2(devnull, 1)
    try:
        yield
    finally:
        os.dup2(saved, 1)
        os.close(saved)
        os.close(devnull)


def make_instance(alts, orders):
    inst = OrdinalInstance()
    inst.alternatives_name = {a: str(a) for a in alts}
    inst.num_alternatives = len(alts)
    inst.orders = [tuple((a,) for a in o) for o in orders]
    inst.multiplicity = {order: 1 for order in inst.orders}
    inst.num_voters = len(orders)
    inst.num_unique_orders = len(orders)
    inst.data_type = "soc"
    return inst


def euclidean_profile(rng, m, n_target):
    """rankings induced by random generic positions; returns distinct orders in left-to-right voter order"""
    for _ in range(200):
        alts = list(range(1, m + 1))
        pos = {a: Fraction(rng.randint(0, 10 ** 6), 1) for a in alts}
        if len(set(pos.values())) < m:
            continue
        voters = sorted(Fraction(rng.randint(-10 ** 5, 11 * 10 ** 5), 1) + Fraction(1, 3) for _ in range(3 * n_target + 3))
        orders = []
        ok = True
        for v in voters:
            d = [abs(v - pos[a]) for a in alts]
            if len(set(d)) < m:
                ok = False
                break
            o = tuple(sorted(alts, key=lambda a: abs(v - pos[a])))
            if o not in orders:
                orders.append(o)
        if not ok or len(orders) < 2:
            continue
        if len(orders) > n_target:
            # keep a random subsequence (still Euclidean, still ordered left to right)
            keep = sorted(rng.sample(range(len(orders)), n_target))
            orders = [orders[i] for i in keep]
        return orders
    raise RuntimeError("could not build a Euclidean profile")


def random_profile(rng, m, n_target):
    alts = list(range(1, m + 1))
    orders = []
    while len(orders) < n_target:
        o = alts[:]
        rng.shuffle(o)
        o = tuple(o)
        if o not in orders:
            orders.append(o)
        if m == 2 and len(orders) == 2:
            break
    return orders


def gen_cases(N, seed):
    rng = random.Random(seed)
    cases = []
    for t in range(N):
        m = rng.randint(2, 6)
        n_target = rng.randint(2, 5)
        if m == 2:
            n_target = 2
        kind = "euclid" if t % 2 == 0 else "random"
        orders = euclidean_profile(rng, m, n_target) if kind == "euclid" else random_profile(rng, m, n_target)
        # every fifth Euclidean case keeps the left-to-right storage order (extra coverage of the
        # situation the algorithm is designed for); all the others are shuffled
        if not (kind == "euclid" and t % 10 == 0):
            rng.shuffle(orders)
        else:
            kind = "euclid-sorted"
        cases.append((kind, list(range(1, m + 1)), [list(o) for o in orders]))
    return cases


def run_real(alts, orders):
    """call the real is_one_euclidean, capturing what reaches the LP"""
    inst = make_instance(alts, orders)
    rec = {"lp_args": [], "gen": [], "ilp": [], "exc": None, "result": None}
    orig_solve = euc._one_euclidean_solve_lp
    orig_gen = euc._one_euclidean_gen_sets

    def solve(preferences, axis):
        rec["lp_args"].append(([list(p) for p in preferences], list(axis)))
        return orig_solve(preferences, axis)

    def gen(v_1, C_set_plus, C_set_minus):
        before = (list(v_1), sorted(C_set_plus), sorted(C_set_minus), list(C_set_plus), list(C_set_minus))
        f, g, k = orig_gen(v_1, C_set_plus, C_set_minus)
        rec["gen"].append({"before": before, "f": [sorted(s) for s in f], "g": [sorted(s) for s in g], "k": k,
                           "plusAfter": sorted(C_set_plus), "minusAfter": sorted(C_set_minus)})
        return f, g, k

    euc._one_euclidean_solve_lp = solve
    euc._one_euclidean_gen_sets = gen
    try:
        with warnings.catch_warnings():
            warnings.simplefilter("ignore")
            with quiet_fd1():
                sc = is_single_crossing(inst)[0]
                with ilpcap.capture(rec["ilp"]):
                    try:
                        rec["result"] = euc.is_one_euclidean(inst)
                    except Exception as e:  # the float post-processing is not modelled
                        rec["exc"] = repr(e)
    finally:
        euc._one_euclidean_solve_lp = orig_solve
        euc._one_euclidean_gen_sets = orig_gen
    rec["sc"] = bool(sc)
    return rec


def main():
    N = int(sys.argv[1]) if len(sys.argv) > 1 else 4000
    seed = int(sys.argv[2]) if len(sys.argv) > 2 else 20260930
    cases = gen_cases(N, seed)
    reqs = "".join(json.dumps({"op": "euc.lp", "alts": alts, "orders": orders}) + "\n" for _, alts, orders in cases)
    out = subprocess.run([DRIVER], input=reqs, capture_output=True, text=True, check=True).stdout.splitlines()
    assert len(out) == len(cases), (len(out), len(cases))

    stats = collections.Counter()
    diffs = []
    for (kind, alts, orders), line in zip(cases, out):
        reply = json.loads(line)
        if "error" in reply:
            diffs.append(("driver-error", alts, orders, reply))
            continue
        rec = run_real(alts, orders)
        stats["cases"] += 1
        stats["kind:" + kind] += 1
        stats["m=%d" % len(alts)] += 1
        problems = []

        real_reaches = len(rec["lp_args"]) == 1
        model_reaches = reply["axis"] is not None
        if len(rec["lp_args"]) > 1 or len(rec["ilp"]) != len(rec["lp_args"]):
            problems.append(("capture-shape", len(rec["lp_args"]), len(rec["ilp"])))
        # decision to reach the LP, and why not
        if rec["sc"] != reply["sc"]:
            problems.append(("sc", rec["sc"], reply["sc"]))
        if real_reaches != model_reaches:
            problems.append(("reach", real_reaches, model_reaches))
        if not rec["sc"]:
            stats["stopped: not single-crossing"] += 1
            if real_reaches:
                problems.append(("real reached the LP although not SC",))
        elif not real_reaches:
            stats["stopped: colouring failed"] += 1
            if reply["colouringOk"]:
                problems.append(("colouring", "real failed, model ok"))
            if rec["result"] != (False, None):
                problems.append(("result", rec["result"]))
        if real_reaches and model_reaches:
            stats["reached the LP"] += 1
            stats["reached the LP, " + kind] += 1
            prefs, axis = rec["lp_args"][0]
            cplus = sorted(axis)
            grey = sorted(set(alts) - set(axis))
            if grey:
                stats["reached the LP with grey alternatives"] += 1
            if grey != reply["grey"]:
                problems.append(("grey", grey, reply["grey"]))
            if cplus != reply["cplus"]:
                problems.append(("cplus", cplus, reply["cplus"]))
            if axis != reply["axis"]:
                problems.append(("axis", axis, reply["axis"]))
            if prefs != reply["preferences"]:
                problems.append(("preferences", prefs, reply["preferences"]))
            real_c = collections.Counter(rec["ilp"][0]["constraints"]) if rec["ilp"] else None
            model_c = collections.Counter(ilpcap.model_constraints(reply))
            stats["constraints compared"] += sum(model_c.values())
            if real_c != model_c:
                problems.append(("constraints", sorted((real_c - model_c).items()), sorted((model_c - real_c).items())))
            # variables: n voters + |axis| alternatives
            if rec["ilp"] and rec["ilp"][0]["nvars"] != len(orders) + len(axis):
                problems.append(("nvars", rec["ilp"][0]["nvars"]))
            # _one_euclidean_gen_sets (only called when the solver reports a feasible LP)
            if rec["gen"]:
                stats["LP feasible (gen_sets called)"] += 1
                gs = rec["gen"][0]
                ms = reply["genSets"]
                if gs["before"][3] != gs["before"][1] or gs["before"][4] != gs["before"][2]:
                    problems.append(("set iteration order not increasing", gs["before"]))
                if gs["before"][1] != reply["cplus"] or gs["before"][2] != reply["grey"]:
                    problems.append(("gen_sets args", gs["before"]))
                for key in ("f", "g", "k", "plusAfter", "minusAfter"):
                    if gs[key] != ms[key]:
                        problems.append(("genSets." + key, gs[key], ms[key]))
                if len(gs["f"]) > 1:
                    stats["gen_sets with 2 F-sets"] += 1
                if len(gs["g"]) > 1:
                    stats["gen_sets with tmp removed"] += 1
            else:
                stats["LP infeasible"] += 1
            if rec["exc"]:
                stats["real code raised after the LP (not modelled)"] += 1
            elif rec["result"] is not None and rec["result"][0]:
                stats["real answer True"] += 1
                if kind == "random":
                    stats["real answer True, random kind"] += 1
            else:
                stats["real answer False after LP"] += 1
                if kind.startswith("euclid"):
                    stats["real answer False on a Euclidean profile"] += 1
        elif rec["exc"]:
            problems.append(("exception before the LP", rec["exc"]))
        if problems:
            diffs.append((kind, alts, orders, problems))

    for k in sorted(stats):
        print("%-55s %d" % (k, stats[k]))
    print("DISAGREEMENTS: %d" % len(diffs))
    for d in diffs[:15]:
        print(d)
    return 1 if diffs else 0


if __name__ == "__main__":
    sys.exit(main())
