import random, itertools, copy, sys
import preflibtools.properties.subdomains.consecutive_ones as co
from collections import Counter

def is_pq(t): return isinstance(t, co.PQ)
def kids(t): return t._children
def leaves(t):
    if not is_pq(t): return [t]
    return [l for c in kids(t) for l in leaves(c)]
def orderings(t):
    """set of tuples of leaves"""
    if not is_pq(t): return {(t,)}
    subs = [orderings(c) for c in kids(t)]
    res = set()
    if isinstance(t, co.P):
        for perm in itertools.permutations(range(len(subs))):
            for combo in itertools.product(*[subs[i] for i in perm]):
                res.add(tuple(x for part in combo for x in part))
    else:
        for combo in itertools.product(*subs):
            o = tuple(x for part in combo for x in part)
            res.add(o); res.add(o[::-1])
    return res
def seq(L):
    subs = [orderings(c) for c in L]
    return {tuple(x for part in combo for x in part) for combo in itertools.product(*subs)}
def vseg(v, f):
    idx = [i for i, s in enumerate(f) if v in s]
    return not idx or idx[-1] - idx[0] + 1 == len(idx)
def suf(v, f):
    idx = [i for i, s in enumerate(f) if v in s]
    return not idx or (idx[-1] == len(f) - 1 and idx[-1] - idx[0] + 1 == len(idx))
def pre(v, f): return suf(v, f[::-1])
def flat(t):
    if not is_pq(t): return True
    return len(kids(t)) >= 2 and all(flat(c) for c in kids(t))
def allv(v, t): return all(v in s for s in leaves(t))
def vfree(v, t): return all(v not in s for s in leaves(t))
def root_settled(v, t):
    if not isinstance(t, co.P): return True
    return allv(v, t) or any(vfree(v, c) for c in kids(t))

stats = Counter()
def wrap(cls):
    orig = cls.set_contiguous
    def sc(self, v):
        before = copy.deepcopy(self)
        small = len(leaves(before)) <= 6
        if not flat(before): stats["NOT FLAT INPUT"] += 1
        try:
            res = orig(self, v)
        except ValueError:
            if small:
                A = {f for f in orderings(before) if vseg(v, f)}
                stats["error calls"] += 1
                if A: stats["ERROR BUT A NONEMPTY"] += 1
            raise
        if small:
            ob = orderings(before)
            A = {f for f in ob if vseg(v, f)}
            S = {f for f in ob if suf(v, f)}
            Pr = {f for f in ob if pre(v, f)}
            oa = orderings(self)
            stats["ok calls"] += 1
            if oa != A: stats["FR(after) != A(before)" + (" (missing)" if A - oa else " (extra)")] += 1
            rs = root_settled(v, before)
            if res == (1, False):
                if S or Pr: stats["PU BUT ALIGNABLE" + (" settled" if rs else " unsettled")] += 1
            if res == (1, True):
                L = self.simplify(v, right=True)
                sq = seq(L)
                if not S <= sq: stats["PA: S not within Seq(simplify)" + (" settled" if rs else " unsettled")] += 1
                if not sq <= S: stats["PA: Seq(simplify) not within S" + (" settled" if rs else " unsettled")] += 1
                if not S: stats["PA but S empty" + (" settled" if rs else " unsettled")] += 1
            if res[0] == 2 and not allv(v, self): stats["FULL wrong"] += 1
            if res[0] == 0 and not vfree(v, self): stats["EMPTY wrong"] += 1
        return res
    cls.set_contiguous = sc
wrap(co.P); wrap(co.Q)

random.seed(5)
N = int(sys.argv[1]) if len(sys.argv) > 1 else 3000
for it in range(N):
    nr = random.randint(1, 7); nc = random.randint(3, 7)
    if random.random() < 0.7:
        m = [[0]*nc for _ in range(nr)]
        for r in range(nr):
            a = random.randint(0, nc-1); b = random.randint(a, nc-1)
            for c in range(a, b+1): m[r][c] = 1
        perm = list(range(nc)); random.shuffle(perm)
        m = [[row[perm[c]] for c in range(nc)] for row in m]
        if random.random() < 0.3:
            r = random.randrange(nr); c = random.randrange(nc); m[r][c] ^= 1
    else:
        d = random.uniform(0.2, 0.7)
        m = [[1 if random.random() < d else 0 for _ in range(nc)] for _ in range(nr)]
    sets = []
    for c in range(nc):
        s = tuple(r for r in range(nr) if m[r][c])
        if s not in sets: sets.append(s)
    try:
        co.reorder_sets(sets)
    except ValueError:
        pass
print(dict(stats))
