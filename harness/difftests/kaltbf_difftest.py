"""Differential test: real k_alternative_partition_brut_force(instance, k) vs the Lean model (prefdriver, op kalt.bf).

run: cd /tmp && PYTHONPATH=/repo /venv/bin/python /tmp/agents/PBF/difftest.py [ncases] [seed]

For every random strict profile and every k in 1 .. m+1 the EXACT result (None or the list of axes, in order) of
the real function is compared with the model.  In addition (oracles independent of the model under test):
  * every non-None Python answer is checked by the verified certificate checker `partitionCert` (dom.nearly),
    and `len(axes) <= k`;
  * on a sample of profiles with m <= 6 the verified brute-force optimum `minPartition` of the specification is
    computed and compared: the answer must be None iff minPartition > k, and have minPartition axes otherwise.
"""
import json
import random
import subprocess
import sys
import warnings

from preflibtools.instances import OrdinalInstance
from preflibtools.properties.subdomains.ordinal.singlepeaked.k_alternative_partition import (
    k_alternative_partition_brut_force,
    singleton_pair_combinations,
)

DRIVER = "/tmp/agents/PBF/lean/.lake/build/bin/prefdriver"
warnings.simplefilter("ignore")


def make_instance(alts, orders):
    inst = OrdinalInstance()
    inst.alternatives_name = {a: str(a) for a in alts}
    inst.num_alternatives = len(alts)
    inst.orders = [tuple((a,) for a in o) for o in orders]
    inst.multiplicity = {o: 1 for o in inst.orders}
    inst.num_voters = len(orders)
    inst.num_unique_orders = len(orders)
    inst.data_type = "soc"
    return inst


def sp_order(rng, axis):
    """a strict order single-peaked on `axis`, built outside-in (worst alternative first)"""
    lo, hi = 0, len(axis) - 1
    rev = []
    while lo <= hi:
        if lo == hi or rng.random() < 0.5:
            rev.append(axis[lo])
            lo += 1
        else:
            rev.append(axis[hi])
            hi -= 1
    return rev[::-1]


def gen_ids(rng, m):
    r = rng.random()
    if r < 0.3:
        pool = range(1, m + 1)
    elif r < 0.5:
        pool = range(1, 13)
    elif r < 0.7:
        pool = range(1, 41)
    elif r < 0.85:
        pool = range(1, 2001)
    else:
        pool = range(1, 10 ** rng.choice([6, 9, 12, 18]))
    if len(pool) < 10 ** 5:
        return rng.sample(list(pool), m)
    s = set()
    while len(s) < m:
        s.add(rng.randrange(1, pool.stop))
    ids = list(s)
    rng.shuffle(ids)
    return ids


def merge_blocks(rng, parts):
    """a random interleaving of the given orders (each keeps its internal order)"""
    parts = [list(p) for p in parts if p]
    out = []
    while parts:
        i = rng.randrange(len(parts))
        out.append(parts[i].pop(0))
        if not parts[i]:
            parts.pop(i)
    return out


def gen_case(rng):
    m = rng.choice([1, 2, 3, 3, 4, 4, 5, 5, 5, 6, 6, 6, 7, 7])
    alts = gen_ids(rng, m)
    n = rng.randint(1, 4)
    orders = []
    planted = rng.random() < 0.55
    if planted:
        # union of 1..3 single-peaked blocks
        nb = rng.randint(1, min(3, m))
        base = alts[:]
        rng.shuffle(base)
        cuts = sorted(rng.sample(range(1, m), nb - 1)) if nb > 1 else []
        blocks = [base[i:j] for i, j in zip([0] + cuts, cuts + [m])]
        for _ in range(n):
            orders.append(merge_blocks(rng, [sp_order(rng, b) for b in blocks]))
    else:
        for _ in range(n):
            o = alts[:]
            rng.shuffle(o)
            orders.append(o)
    uniq = []
    for o in orders:
        if o not in uniq:
            uniq.append(o)
    names = alts[:]
    rng.shuffle(names)
    return names, uniq, planted


def main():
    ncases = int(sys.argv[1]) if len(sys.argv) > 1 else 6000
    seed = int(sys.argv[2]) if len(sys.argv) > 2 else 20260930
    rng = random.Random(seed)
    reqs, expected, meta = [], [], []
    stats = {"profiles": 0, "planted": 0, "calls": 0, "None": 0, "axes=1": 0, "axes=2": 0, "axes>=3": 0,
             "k_capped": 0, "brute_profiles": 0}
    # singleton_pair_combinations on its own (distinct items, and a few lists with repeated items)
    nspc = 400
    for t in range(nspc):
        n = rng.randint(0, 7)
        items = gen_ids(rng, n) if (n and t % 8) else [rng.randint(1, 4) for _ in range(n)]
        res = singleton_pair_combinations(list(items))
        reqs.append({"op": "kalt.spc", "items": items})
        expected.append({"combis": [[list(b) for b in c] for c in res]})
        meta.append(("spc", items))
    # the profile of the Lean theorems bf_not_complete / bf_not_minimal, and its original with large identifiers
    fixed = [([1, 2, 3, 4, 5, 6], [[1, 2, 3, 4, 5, 6], [5, 2, 3, 4, 1, 6], [5, 1, 4, 3, 6, 2]], False),
             ([31, 7, 36, 24, 23, 17], [[7, 24, 17, 31, 23, 36], [23, 24, 17, 31, 7, 36], [23, 7, 31, 17, 36, 24]],
              False)]
    for c in range(ncases + len(fixed)):
        alts, orders, planted = fixed[c] if c < len(fixed) else gen_case(rng)
        m = len(alts)
        stats["profiles"] += 1
        stats["planted"] += planted
        brute = m <= 6 and (c < len(fixed) or rng.random() < 0.35)
        stats["brute_profiles"] += brute
        if brute:
            reqs.append({"op": "dom.nearly", "alts": alts, "orders": [[[a] for a in o] for o in orders],
                         "brute": True, "certs": {}})
            expected.append(None)
            meta.append(("min", alts, orders, None))
            min_slot = len(reqs) - 1
        else:
            min_slot = None
        for k in range(1, m + 2):
            inst = make_instance(alts, orders)
            res = k_alternative_partition_brut_force(inst, k)
            res = None if res is None else [list(a) for a in res]
            stats["calls"] += 1
            if k > (m + 1) // 2:
                stats["k_capped"] += 1
            if res is None:
                stats["None"] += 1
            elif len(res) == 1:
                stats["axes=1"] += 1
            elif len(res) == 2:
                stats["axes=2"] += 1
            else:
                stats["axes>=3"] += 1
            reqs.append({"op": "kalt.bf", "alts": alts, "orders": orders, "k": k})
            expected.append({"axes": res})
            meta.append(("bf", alts, orders, k, min_slot))
            if res is not None:
                reqs.append({"op": "dom.nearly", "alts": alts, "orders": [[[a] for a in o] for o in orders],
                             "certs": {"axes": res}})
                expected.append({"axesCert": True, "lenOK": len(res) <= k})
                meta.append(("cert", alts, orders, k))
    inp = "\n".join(json.dumps(r) for r in reqs) + "\n"
    out = subprocess.run([DRIVER], input=inp, capture_output=True, text=True, check=True).stdout.splitlines()
    assert len(out) == len(reqs), (len(out), len(reqs))
    got_all = [json.loads(line) for line in out]
    bad = {"bf": 0, "cert": 0, "spc": 0}
    nonopt = {"calls": 0, "profiles": set()}
    nopt = 0
    shown = 0
    nshown_opt = 0
    for got, exp, mt in zip(got_all, expected, meta):
        if mt[0] == "min":
            continue
        if mt[0] == "spc":
            if got != exp:
                bad["spc"] += 1
                if shown < 8:
                    shown += 1
                    print("DISAGREE", mt, "\n  python:", exp, "\n  lean:  ", got)
            continue
        if mt[0] == "cert":
            g = {"axesCert": got.get("axesCert"), "lenOK": True}
            if g != exp:
                bad["cert"] += 1
                if shown < 8:
                    shown += 1
                    print("PYTHON ANSWER FAILS CERTIFICATE", mt, exp, got)
            continue
        if got != exp:
            bad["bf"] += 1
            if shown < 8:
                shown += 1
                print("DISAGREE", mt, "\n  python:", exp, "\n  lean:  ", got)
        if mt[4] is not None:
            nopt += 1
            mn = got_all[mt[4]]["minPartition"]
            k = mt[3]
            py = exp["axes"]
            ok = (py is None and mn > k) or (py is not None and len(py) == mn and mn <= k)
            if not ok:
                nonopt["calls"] += 1
                nonopt["profiles"].add(json.dumps(mt[1:3]))
                if nshown_opt < 4:
                    nshown_opt += 1
                    print("FINDING (real function, not a model disagreement): answer not optimal / not complete",
                          mt[1:4], "minPartition", mn, "python", py)
    print(f"profiles: {stats['profiles']} (planted unions of single-peaked blocks: {stats['planted']}), "
          f"calls (profile, k): {stats['calls']}")
    print(f"singleton_pair_combinations cases: {nspc}, disagreements: {bad['spc']}")
    print(f"exact-result disagreements (model vs real function): {bad['bf']}")
    print(f"certificate failures of the Python answers (partitionCert, len <= k): {bad['cert']}")
    print(f"optimum/completeness checks against the verified brute force minPartition: {nopt} calls on "
          f"{stats['brute_profiles']} profiles; the real function (and the model) misses the optimum on "
          f"{nonopt['calls']} calls / {len(nonopt['profiles'])} profiles (known defect, see bf_not_complete)")
    print("stats:", stats)
    return 1 if any(bad.values()) else 0


sys.exit(main())
