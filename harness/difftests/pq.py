#!/usr/bin/env python
"""Differential test: the Lean model of the PQ-tree (PrefVerif/Model/PQTree.lean, through the driver ops
`pq.reorder` / `pq.solve`) against the real `reorder_sets`, `solve_consecutive_ones`, `isC1P` of
preflibtools/properties/subdomains/consecutive_ones.py.

Run:  cd /tmp && PYTHONPATH=/repo /venv/bin/python /verif/harness/difftests/pq.py [N] [seed]
"""
import itertools
import json
import random
import subprocess
import sys
from collections import Counter

import numpy as np

import preflibtools.properties.subdomains.consecutive_ones as co

DRIVER = "/verif/lean/.lake/build/bin/prefdriver"
N = int(sys.argv[1]) if len(sys.argv) > 1 else 24000
SEED = int(sys.argv[2]) if len(sys.argv) > 2 else 20260930
rng = random.Random(SEED)

# ---------------------------------------------------------------- instrumentation of the real code
stats = Counter()
_depth = 0
_maxdepth = 0


def _wrap_sc(cls):
    orig = cls.set_contiguous

    def sc(self, v):
        global _depth, _maxdepth
        _depth += 1
        _maxdepth = max(_maxdepth, _depth)
        try:
            return orig(self, v)
        finally:
            _depth -= 1

    cls.set_contiguous = sc


_wrap_sc(co.P)
_wrap_sc(co.Q)

_orig_init = co.PQ.__init__


def _init(self, seq):
    seq = list(seq)
    # modelling assumption: the same PQ object is never offered twice to a constructor
    objs = [id(e) for e in seq if isinstance(e, co.PQ)]
    if len(objs) != len(set(objs)):
        stats["ALIASED_PQ_OBJECT_IN_CONSTRUCTOR"] += 1
    _orig_init(self, seq)


co.PQ.__init__ = _init

# ---------------------------------------------------------------- generators


def rand_matrix(nr, nc, d):
    return [[1 if rng.random() < d else 0 for _ in range(nc)] for _ in range(nr)]


def planted(nr, nc):
    """every row an interval of columns, then a random column permutation"""
    m = []
    for _ in range(nr):
        if rng.random() < 0.1:
            m.append([0] * nc)
            continue
        a = rng.randint(0, nc - 1)
        b = rng.randint(a, nc - 1)
        m.append([1 if a <= c <= b else 0 for c in range(nc)])
    perm = list(range(nc))
    rng.shuffle(perm)
    return [[row[perm[c]] for c in range(nc)] for row in m]


def tucker(kind, k=1):
    if kind == "I":  # (k+2) x (k+2): cycle
        n = k + 2
        return [[1 if c in (r, (r + 1) % n) else 0 for c in range(n)] for r in range(n)]
    if kind == "II":  # (k+3) x (k+3)
        n = k + 3
        m = [[1 if c in (r, r + 1) else 0 for c in range(n)] for r in range(k + 1)]
        m.append([1] * (k + 1) + [0, 1])
        m.append([0] + [1] * (k + 2))
        return m
    if kind == "III":  # (k+2) x (k+3)
        n = k + 3
        m = [[1 if c in (r, r + 1) else 0 for c in range(n)] for r in range(k + 1)]
        m.append([0] + [1] * k + [0, 1])
        return m
    if kind == "IV":
        return [[1, 1, 0, 0, 0, 0], [0, 0, 1, 1, 0, 0], [0, 0, 0, 0, 1, 1], [0, 1, 0, 1, 0, 1]]
    if kind == "V":
        return [[1, 1, 0, 0, 0], [0, 0, 1, 1, 0], [1, 1, 1, 1, 0], [1, 0, 0, 1, 1]]
    raise ValueError(kind)


def obstructions(maxr, maxc):
    out = []
    for k in range(1, 8):
        for kind in ("I", "II", "III"):
            t = tucker(kind, k)
            if len(t) <= maxr and len(t[0]) <= maxc:
                out.append((kind + str(k), t))
    for kind in ("IV", "V"):
        t = tucker(kind)
        if len(t) <= maxr and len(t[0]) <= maxc:
            out.append((kind, t))
    return out


def embed(t, maxr, maxc):
    """the obstruction `t` as a submatrix of a random / planted / zero matrix, rows and columns shuffled"""
    tr, tc = len(t), len(t[0])
    nr = rng.randint(tr, maxr)
    nc = rng.randint(tc, maxc)
    mode = rng.random()
    if mode < 0.4:
        m = rand_matrix(nr, nc, rng.uniform(0.2, 0.7))
    elif mode < 0.7:
        m = planted(nr, nc)
    else:
        m = [[0] * nc for _ in range(nr)]
    rows = sorted(rng.sample(range(nr), tr))
    cols = sorted(rng.sample(range(nc), tc))
    rp = list(range(tr))
    cp = list(range(tc))
    rng.shuffle(rp)
    rng.shuffle(cp)
    for i, r in enumerate(rows):
        for j, c in enumerate(cols):
            m[r][c] = t[rp[i]][cp[j]]
    return m


def decorate(m, maxr, maxc, destructive=True):
    """duplicated / all-zero rows and columns (`destructive=False`: only duplications, so that an embedded
    obstruction survives)"""
    m = [row[:] for row in m]
    if rng.random() < 0.25 and len(m) < maxr:
        m.insert(rng.randint(0, len(m)), m[rng.randrange(len(m))][:])
    if rng.random() < 0.25 and len(m[0]) < maxc:
        src = rng.randrange(len(m[0]))
        pos = rng.randint(0, len(m[0]))
        for row in m:
            row.insert(pos, row[src])
    if not destructive:
        return m
    if rng.random() < 0.12:
        r = rng.randrange(len(m))
        m[r] = [0] * len(m[0])
    if rng.random() < 0.12:
        c = rng.randrange(len(m[0]))
        for row in m:
            row[c] = 0
    if rng.random() < 0.05:
        r = rng.randrange(len(m))
        m[r] = [1] * len(m[0])
    return m


def gen(maxr, maxc):
    u = rng.random()
    if u < 0.35:
        kind = "random"
        m = rand_matrix(rng.randint(1, maxr), rng.randint(1, maxc), rng.uniform(0.2, 0.7))
    elif u < 0.70:
        kind = "planted"
        m = planted(rng.randint(1, maxr), rng.randint(1, maxc))
        if rng.random() < 0.3:  # perturb one entry
            r = rng.randrange(len(m))
            c = rng.randrange(len(m[0]))
            m[r][c] ^= 1
            kind = "planted+flip"
    else:
        obs = obstructions(maxr, maxc)
        name, t = rng.choice(obs)
        kind = "tucker " + name
        m = embed(t, maxr, maxc)
    if len(m) <= maxr and len(m[0]) <= maxc:
        m = decorate(m, maxr, maxc, destructive=not kind.startswith("tucker"))
    return kind, m


# ---------------------------------------------------------------- reference results


def ints(x):
    return [[int(e) for e in s] for s in x]


def py_reorder(sets):
    global _maxdepth
    _maxdepth = 0
    try:
        r = co.reorder_sets(list(sets))
        return ints(r), None
    except ValueError as e:
        return None, ("impossible" if str(e) == "Impossible" else "bonben")
    except Exception as e:  # noqa
        return None, "crash"


def py_solve(m):
    try:
        ok, order = co.solve_consecutive_ones(np.array(m))
    except ValueError:
        raise
    except Exception:
        return "crash"
    if not ok:
        assert order is None
        return None
    return [int(c) for c in order]


def py_isc1p(m):
    try:
        return co.isC1P(m)
    except Exception:
        return "crash"


def supports(m):
    nr, nc = len(m), len(m[0])
    seen = []
    for c in range(nc):
        s = tuple(r for r in range(nr) if m[r][c] == 1)
        if s not in seen:
            seen.append(s)
    return seen


def brute_c1p(sets):
    """is there an ordering of the (distinct) sets with every element on an interval?"""
    elems = sorted(set().union(*sets)) if sets else []
    for perm in itertools.permutations(range(len(sets))):
        ok = True
        for e in elems:
            pos = [i for i, k in enumerate(perm) if e in sets[k]]
            if pos and pos[-1] - pos[0] + 1 != len(pos):
                ok = False
                break
        if ok:
            return True
    return False


def valid_order(order, sets):
    if sorted(order) != sorted([list(s) for s in sets]):
        return False
    elems = set().union(*[set(s) for s in sets]) if sets else set()
    for e in elems:
        pos = [i for i, s in enumerate(order) if e in s]
        if pos and pos[-1] - pos[0] + 1 != len(pos):
            return False
    return True


# ---------------------------------------------------------------- the test


def main():
    cases = []  # (tag, kind, payload)
    # A: the required family, 1-7 rows, 1-8 columns
    for _ in range(N):
        kind, m = gen(7, 8)
        cases.append(("A", kind, m))
    # B: larger matrices (up to 20 rows: element order of the CPython set is no longer ascending)
    for _ in range(N // 6):
        kind, m = gen(20, 14)
        cases.append(("B", kind, m))
    # C: reorder_sets directly on sets of arbitrary integers (hash collisions, table growth)
    pools = [list(range(0, 200, 8)), list(range(0, 4000, 64)), [2 ** 61 - 1 + i for i in range(12)] + list(range(12)),
             list(range(40)), [rng.randrange(10 ** 6) for _ in range(30)], [rng.randrange(2 ** 70) for _ in range(20)]]
    for _ in range(N // 6):
        pool = rng.choice(pools)
        n = rng.randint(1, 9)
        if rng.random() < 0.6:  # planted: intervals of a hidden order over "points"
            ground = rng.sample(pool, min(len(pool), rng.randint(1, 10)))
            sets = [[] for _ in range(n)]
            for e in ground:
                a = rng.randint(0, n - 1)
                b = rng.randint(a, n - 1)
                for i in range(a, b + 1):
                    sets[i].append(e)
            rng.shuffle(sets)
        else:
            sets = [rng.sample(pool, rng.randint(0, min(5, len(pool)))) for _ in range(n)]
        if rng.random() < 0.2 and sets:
            sets.append(list(rng.choice(sets)))  # duplicate
        cases.append(("C", "sets", [list(s) for s in sets]))

    reqs = []
    expected = []
    kinds = Counter()
    maxdepth_by_n = {}
    for tag, kind, payload in cases:
        kinds[(tag, kind.split()[0])] += 1
        if tag in ("A", "B"):
            m = payload
            sup = supports(m)
            order, err = py_reorder(sup)
            n = len(sup)
            maxdepth_by_n[n] = max(maxdepth_by_n.get(n, 0), _maxdepth)
            exp = {"solve": py_solve(m), "order": order, "err": err, "isc1p": py_isc1p(m), "sup": sup}
            reqs.append({"op": "pq.solve", "matrix": m, "ncols": len(m[0])})
            reqs.append({"op": "pq.reorder", "sets": [list(s) for s in sup]})
            expected.append((tag, kind, m, exp))
        else:
            sets = payload
            order, err = py_reorder([tuple(s) for s in sets])
            distinct = []
            for s in sets:
                if s not in distinct:
                    distinct.append(s)
            n = len(distinct)
            maxdepth_by_n[n] = max(maxdepth_by_n.get(n, 0), _maxdepth)
            reqs.append({"op": "pq.reorder", "sets": sets})
            expected.append((tag, kind, sets, {"order": order, "err": err}))

    inp = "\n".join(json.dumps(r) for r in reqs) + "\n"
    out = subprocess.run([DRIVER], input=inp, capture_output=True, text=True, check=True).stdout.splitlines()
    assert len(out) == len(reqs), (len(out), len(reqs))
    replies = [json.loads(l) for l in out]

    diffs = []
    cnt = Counter()
    pos = 0
    for tag, kind, payload, exp in expected:
        if tag in ("A", "B"):
            rs, ro = replies[pos], replies[pos + 1]
            pos += 2
            cnt[tag + " matrices"] += 1
            cnt[tag + (" solve: order" if exp["solve"] is not None else " solve: False")] += 1
            if rs.get("result") != exp["solve"]:
                diffs.append((tag, kind, "solve", payload, exp["solve"], rs))
            if rs.get("isC1P") != exp["isc1p"]:
                diffs.append((tag, kind, "isC1P", payload, exp["isc1p"], rs))
            if ro.get("order") != exp["order"] or ro.get("err") != exp["err"] or ro.get("same") is not True:
                diffs.append((tag, kind, "reorder", exp["sup"], (exp["order"], exp["err"]), ro))
            # sanity of the reference itself (not part of the comparison)
            if exp["order"] is not None and not valid_order(exp["order"], exp["sup"]):
                cnt["PYTHON returned an invalid order"] += 1
            if (exp["solve"] is not None) != exp["isc1p"]:
                cnt["solve/isC1P verdicts disagree"] += 1
            if tag == "A" and len(exp["sup"]) <= 7:
                b = brute_c1p([set(s) for s in exp["sup"]])
                cnt["A brute-force checked"] += 1
                if b != (exp["order"] is not None):
                    cnt["PYTHON verdict differs from brute force"] += 1
            if kind.startswith("tucker") and exp["solve"] is not None:
                cnt["tucker accepted (!)"] += 1
        else:
            ro = replies[pos]
            pos += 1
            cnt["C set families"] += 1
            cnt["C reorder: order" if exp["order"] is not None else "C reorder: " + str(exp["err"])] += 1
            if ro.get("order") != exp["order"] or ro.get("err") != exp["err"] or ro.get("same") is not True:
                diffs.append((tag, kind, "reorder", payload, (exp["order"], exp["err"]), ro))
    for r in replies:
        if r.get("err") == "fuel":
            cnt["MODEL OUT OF FUEL"] += 1
        if r.get("err") == "crash":
            cnt["model crash"] += 1

    print("seed", SEED)
    print("generated:", dict(sorted((f"{t}/{k}", v) for (t, k), v in kinds.items())))
    print("counts:", dict(sorted(cnt.items())))
    print("instrumentation:", dict(stats) or "no PQ object ever offered twice to a constructor")
    print("max recursion depth of set_contiguous by number of distinct sets:", sorted(maxdepth_by_n.items()))
    print("fuel supplied by the model: 2n+2; needed: depth+1")
    print("DIFFERENCES:", len(diffs))
    for d in diffs[:20]:
        print("  ", d)
    return 1 if diffs else 0


if __name__ == "__main__":
    sys.exit(main())
