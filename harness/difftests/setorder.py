import itertools, sys
print(sys.version)
def check(M):
    bad = 0
    for m in range(1, M+1):
        d = {a: str(a) for a in range(1, m+1)}
        C = set(d)
        if list(C) != sorted(C): bad += 1; print("C_set", m, list(C))
        for r in range(0, m+1):
            for sub in itertools.combinations(range(1, m+1), r):
                keep = set(sub)
                P = set([c for c in C if c in keep])
                Mi = C - P
                if list(P) != sorted(P): bad += 1; print("plus", m, list(P))
                if list(Mi) != sorted(Mi): bad += 1; print("minus", m, list(Mi))
                # also shuffled dict insertion
                Q = set(P); pops = []
                while Q: pops.append(Q.pop())
                if pops != sorted(pops): bad += 1; print("pop", m, pops)
                if Mi:
                    Mi2 = set(Mi); t = sorted(Mi2)[len(Mi2)//2]; Mi2.remove(t)
                    if list(Mi2) != sorted(Mi2): bad += 1; print("remove", m, list(Mi2))
    return bad
print("bad m<=7:", check(7))
# where does it first break?
for m in range(8, 12):
    d = {a: str(a) for a in range(1, m+1)}
    C = set(d)
    ex = None
    for r in range(0, m+1):
        for sub in itertools.combinations(range(1, m+1), r):
            P = set([c for c in C if c in set(sub)])
            Mi = C - P
            if list(P) != sorted(P): ex = ("plus", list(P)); break
            if list(Mi) != sorted(Mi): ex = ("minus", list(Mi)); break
        if ex: break
    print(m, "C_set sorted:", list(C) == sorted(C), "first non-increasing:", ex)
