"""Differential test: real `is_single_peaked` (preflibtools) vs the Lean model `PrefVerif.ELO.isSinglePeaked`.

Run with:  cd /tmp && PYTHONPATH=/repo /venv/bin/python /tmp/agents/ELO/difftest.py [seed] [n_random]
"""
import itertools
import json
import random
import subprocess
import sys
import warnings
from collections import Counter

from preflibtools.instances import OrdinalInstance
from preflibtools.properties.subdomains.ordinal.singlepeaked.singlepeakedness import (
    is_single_peaked,
    is_single_peaked_axis,
)

DRIVER = "/tmp/agents/ELO/lean/.lake/build/bin/prefdriver"


def make_instance(orders):
    alts = sorted(orders[0])
    inst = OrdinalInstance()
    inst.alternatives_name = {a: str(a) for a in alts}
    inst.num_alternatives = len(alts)
    inst.orders = [tuple((a,) for a in o) for o in orders]
    inst.multiplicity = {order: 1 for order in inst.orders}
    inst.num_voters = len(orders)
    inst.num_unique_orders = len(orders)
    inst.data_type = "soc"
    return inst


def python_answer(orders):
    inst = make_instance(orders)
    try:
        with warnings.catch_warnings():
            warnings.simplefilter("ignore")
            verdict, axis = is_single_peaked(inst)
    except ValueError as e:
        assert "We should never have ended up here" in str(e), e
        return None
    return [bool(verdict), list(axis) if axis is not None else []]


def sp_order(axis, rng):
    """a strict order single-peaked on `axis`, built outside-in (worst candidate first)"""
    lo, hi = 0, len(axis) - 1
    worst_first = []
    while lo <= hi:
        if lo == hi or rng.random() < 0.5:
            worst_first.append(axis[lo])
            lo += 1
        else:
            worst_first.append(axis[hi])
            hi -= 1
    return tuple(reversed(worst_first))


def distinct(orders):
    seen, res = set(), []
    for o in orders:
        if o not in seen:
            seen.add(o)
            res.append(o)
    return res


def random_profile(rng):
    m = rng.randint(1, 7)
    alts = rng.sample(range(1, 60), m)
    n = rng.randint(1, 6)
    kind = rng.random()
    if kind < 0.40:  # single-peaked by construction
        axis = alts[:]
        rng.shuffle(axis)
        orders = [sp_order(axis, rng) for _ in range(n)]
        tag = "sp"
    elif kind < 0.70:  # single-peaked with one adjacent-or-not swap in one order
        axis = alts[:]
        rng.shuffle(axis)
        orders = [sp_order(axis, rng) for _ in range(n)]
        if m >= 2:
            k = rng.randrange(len(orders))
            o = list(orders[k])
            i, j = rng.sample(range(m), 2)
            o[i], o[j] = o[j], o[i]
            orders[k] = tuple(o)
        tag = "sp+swap"
    else:
        orders = []
        for _ in range(n):
            o = alts[:]
            rng.shuffle(o)
            orders.append(tuple(o))
        tag = "uniform"
    return tag, distinct(orders)


def exhaustive():
    res = []
    for m, kmax in ((3, 3), (4, 3)):
        perms = list(itertools.permutations(range(1, m + 1)))
        for k in range(1, kmax + 1):
            # ordered selections of k distinct orders: the algorithm depends on the storage order
            for sel in itertools.permutations(perms, k):
                res.append((f"all{m}x{k}", list(sel)))
    return res


def main():
    seed = int(sys.argv[1]) if len(sys.argv) > 1 else 20260930
    n_random = int(sys.argv[2]) if len(sys.argv) > 2 else 24000
    rng = random.Random(seed)
    cases = exhaustive()
    n_exh = len(cases)
    cases += [random_profile(rng) for _ in range(n_random)]

    reqs = "".join(
        json.dumps({"op": "elo.sp", "orders": [list(o) for o in orders]}) + "\n"
        for _, orders in cases
    )
    out = subprocess.run([DRIVER], input=reqs, capture_output=True, text=True, check=True).stdout
    replies = [json.loads(line) for line in out.splitlines()]
    assert len(replies) == len(cases), (len(replies), len(cases))

    verdicts, exits, by_tag = Counter(), Counter(), Counter()
    disagreements = []
    unsound_true = 0
    for (tag, orders), rep in zip(cases, replies):
        assert "error" not in rep, rep
        py = python_answer(orders)
        lean = rep["result"]
        key = "ValueError" if py is None else ("True" if py[0] else "False")
        verdicts[key] += 1
        exits[rep["exit"]] += 1
        by_tag[(tag.split("x")[0] if tag.startswith("all") else tag, key)] += 1
        if py != lean:
            disagreements.append((orders, py, lean))
        # side information (not part of the comparison): is a returned axis really a valid one?
        if py is not None and py[0]:
            inst = make_instance(orders)
            if sorted(py[1]) != sorted(orders[0]) or not is_single_peaked_axis(inst, py[1]):
                unsound_true += 1

    print(f"seed {seed}")
    print(f"cases: {len(cases)} (exhaustive {n_exh}, random {len(cases) - n_exh})")
    print("verdict mix (python):", dict(verdicts))
    print("exit mix (lean):", dict(exits))
    print("by family:", {f"{t}/{k}": v for (t, k), v in sorted(by_tag.items())})
    print("returned True with an axis that is not a valid single-peaked axis:", unsound_true)
    print("disagreements:", len(disagreements))
    for d in disagreements[:10]:
        print("  orders", d[0], "python", d[1], "lean", d[2])
    sys.exit(1 if disagreements else 0)


if __name__ == "__main__":
    main()
