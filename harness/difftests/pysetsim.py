"""Prototype of the CPython 3.12 set layout simulation (to be ported to Lean); validated against real sets."""
import random

M64 = 1 << 64
LINEAR_PROBES = 9
PERTURB_SHIFT = 5


def uh(x):
    return hash(x) % M64


def insert_clean(table, mask, h, key):
    perturb = h
    i = h & mask
    while True:
        if table[i] is None:
            table[i] = (h, key)
            return
        if i + LINEAR_PROBES <= mask:
            for j in range(1, LINEAR_PROBES + 1):
                if table[i + j] is None:
                    table[i + j] = (h, key)
                    return
        perturb >>= PERTURB_SHIFT
        i = (i * 5 + 1 + perturb) & mask


class Sim:
    def __init__(self):
        self.mask = 7
        self.table = [None] * 8
        self.elems = []

    def iter(self):
        return [e[1] for e in self.table if e is not None]

    def resize(self, minused):
        newsize = 8
        while newsize <= minused:
            newsize <<= 1
        if newsize == 8 and self.mask == 7:
            return
        old = [e for e in self.table if e is not None]
        self.mask = newsize - 1
        self.table = [None] * newsize
        for h, k in old:
            insert_clean(self.table, self.mask, h, k)

    def add(self, key):
        if key in self.elems:
            return
        insert_clean(self.table, self.mask, uh(key), key)
        self.elems.append(key)
        used = len(self.elems)
        if used * 5 >= self.mask * 3:
            self.resize(used * 2 if used > 50000 else used * 4)

    def merge(self, other):
        ou = len(other.elems)
        if ou == 0:
            return
        if (len(self.elems) + ou) * 5 >= self.mask * 3:
            self.resize((len(self.elems) + ou) * 2)
        if len(self.elems) == 0 and self.mask == other.mask:
            self.table = list(other.table)
            self.elems = list(other.elems)
            return
        if len(self.elems) == 0:
            for h, k in [e for e in other.table if e is not None]:
                insert_clean(self.table, self.mask, h, k)
            self.elems = list(other.elems)
            return
        for k in other.iter():
            self.add(k)

    def copy(self):
        s = Sim()
        s.merge(self)
        return s


def shuffle_bits(h):
    return (((h ^ 89869747) ^ (h << 16)) * 3644798167) % M64


def fs_hash(hashes):
    h = 0
    for e in hashes:
        h ^= shuffle_bits(e)
    h ^= ((len(hashes) + 1) * 1927868237) % M64
    h ^= (h >> 11) ^ (h >> 25)
    h = (h * 69069 + 907133923) % M64
    if h == M64 - 1:
        h = 590923713
    return h


def main():
    rng = random.Random(1)
    bad = 0
    for t in range(200000):
        hi = rng.choice([8, 12, 20, 40, 100, 1000, 10 ** 6, 10 ** 9])
        n = rng.randint(0, 9)
        xs = [rng.randint(1, hi) for _ in range(n)]
        real = set()
        sim = Sim()
        for x in xs:
            real.add(x)
            sim.add(x)
        ok = list(real) == sim.iter()
        # copy + updates
        c = real.copy()
        cs = sim.copy()
        ok = ok and list(c) == cs.iter()
        for _ in range(rng.randint(0, 3)):
            ys = [rng.randint(1, hi) for _ in range(rng.randint(0, 6))]
            r2 = set()
            s2 = Sim()
            for y in ys:
                r2.add(y)
                s2.add(y)
            c.update(r2)
            cs.merge(s2)
            ok = ok and list(c) == cs.iter()
        # frozenset hashes and sets of frozensets
        pairs = [frozenset([rng.choice(xs), rng.choice(xs)]) for _ in range(rng.randint(0, 40))] if xs else []
        for p in pairs:
            ok = ok and uh(p) == fs_hash([uh(e) for e in p])
        rs = set()
        ss = Sim()
        for p in pairs:
            rs.add(p)
            ss.add(p)
        ok = ok and list(rs) == ss.iter()
        if not ok:
            bad += 1
            if bad < 5:
                print("MISMATCH", xs)
    print("bad", bad)


main()
