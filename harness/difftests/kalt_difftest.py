"""Differential test: real k_alternative_deletion / k_alt_partition_approx vs the Lean model (prefdriver).

run: cd /tmp && PYTHONPATH=/repo /venv/bin/python /tmp/agents/DP/difftest.py [ncases] [seed]
"""
import json
import random
import subprocess
import sys
import warnings

from preflibtools.instances import OrdinalInstance
from preflibtools.properties.subdomains.ordinal.singlepeaked.k_alternative_deletion import k_alternative_deletion
from preflibtools.properties.subdomains.ordinal.singlepeaked.k_alternative_partition import k_alt_partition_approx

DRIVER = "/tmp/agents/DP/lean/.lake/build/bin/prefdriver"
warnings.simplefilter("ignore")


def make_instance(alts, orders):
    inst = OrdinalInstance()
    inst.alternatives_name = {a: str(a) for a in alts}
    inst.num_alternatives = len(alts)
    inst.orders = [tuple((a,) for a in o) for o in orders]
    inst.multiplicity = {o: 1 for o in inst.orders}
    inst.num_voters = len(orders)
    inst.num_unique_orders = len(orders)
    inst.data_type = "soc"
    return inst


def sp_order(rng, axis):
    """a strict order single-peaked on `axis`, built outside-in (worst alternative first)"""
    lo, hi = 0, len(axis) - 1
    rev = []
    while lo <= hi:
        if lo == hi or rng.random() < 0.5:
            rev.append(axis[lo])
            lo += 1
        else:
            rev.append(axis[hi])
            hi -= 1
    return rev[::-1]


def gen_ids(rng, m):
    r = rng.random()
    if r < 0.3:
        pool = range(1, m + 1)
    elif r < 0.5:
        pool = range(1, 13)
    elif r < 0.7:
        pool = range(1, 41)
    elif r < 0.85:
        pool = range(1, 2001)
    else:
        pool = range(1, 10 ** rng.choice([6, 9, 12, 18]))
    if len(pool) < 10 ** 5:
        return rng.sample(list(pool), m)
    s = set()
    while len(s) < m:
        s.add(rng.randrange(1, pool.stop))
    ids = list(s)
    rng.shuffle(ids)
    return ids


def gen_case(rng):
    m = rng.choice([1, 2, 3, 3, 4, 4, 5, 5, 5, 6, 6, 6, 7, 7, 8, 8])
    alts = gen_ids(rng, m)
    n = rng.randint(1, 5)
    orders = []
    planted = rng.random() < 0.6
    if planted:
        k = rng.randint(0, min(3, m - 1))
        base = alts[:]
        rng.shuffle(base)
        extra, axis = base[:k], base[k:]
        for _ in range(n):
            o = sp_order(rng, axis)
            for x in extra:
                o.insert(rng.randint(0, len(o)), x)
            orders.append(o)
    else:
        for _ in range(n):
            o = alts[:]
            rng.shuffle(o)
            orders.append(o)
    uniq = []
    for o in orders:
        if o not in uniq:
            uniq.append(o)
    names = alts[:]
    rng.shuffle(names)
    return names, uniq, planted


def sp_on_axis(orders, axis):
    """every order restricted to `axis` is single-peaked on it"""
    pos = {a: i for i, a in enumerate(axis)}
    for o in orders:
        r = [a for a in o if a in pos]
        for k in range(1, len(r) + 1):
            ps = sorted(pos[a] for a in r[:k])
            if ps[-1] - ps[0] != k - 1:
                return False
    return True


def gen_sets(rng):
    hi = rng.choice([8, 12, 20, 40, 100, 2000, 10 ** 6, 10 ** 9, 10 ** 18])
    xs = [rng.randint(1, hi) for _ in range(rng.randint(0, 9))]
    upd = [[rng.randint(1, hi) for _ in range(rng.randint(0, 6))] for _ in range(rng.randint(0, 3))]
    pairs = [[rng.choice(xs), rng.choice(xs)] for _ in range(rng.randint(0, 40))] if xs else []
    s = set()
    for x in xs:
        s.add(x)
    c = s.copy()
    for u in upd:
        t = set()
        for y in u:
            t.add(y)
        c.update(t)
    P = set()
    fs = [frozenset(p) for p in pairs]
    for f in fs:
        P.add(f)
    exp = {"iter": list(s), "copyUpdate": list(c), "hashes": [hash(f) % (1 << 64) for f in fs],
           "pairs": [list(f) for f in P]}
    return {"op": "kalt.sets", "ints": xs, "update": upd, "pairs": pairs}, exp


def main():
    ncases = int(sys.argv[1]) if len(sys.argv) > 1 else 12000
    seed = int(sys.argv[2]) if len(sys.argv) > 2 else 20260930
    rng = random.Random(seed)
    reqs, expected, meta = [], [], []
    nsets = 3000
    for _ in range(nsets):
        rq, exp = gen_sets(rng)
        reqs.append(rq)
        expected.append(exp)
        meta.append(("sets", rq))
    stats = {"planted": 0, "deleted>0": 0, "axes>1": 0, "py_axis_not_sp": 0, "py_partition_not_sp": 0}
    for _ in range(ncases):
        alts, orders, planted = gen_case(rng)
        inst = make_instance(alts, orders)
        axis, removed = k_alternative_deletion(inst)
        inst2 = make_instance(alts, orders)
        axes = k_alt_partition_approx(inst2)
        stats["planted"] += planted
        stats["deleted>0"] += len(removed) > 0
        stats["axes>1"] += len(axes) > 1
        if not sp_on_axis(orders, axis):
            stats["py_axis_not_sp"] += 1
        if not all(sp_on_axis(orders, ax) for ax in axes):
            stats["py_partition_not_sp"] += 1
        reqs.append({"op": "kalt.deletion", "alts": alts, "orders": orders})
        expected.append({"axis": list(axis), "removed": list(removed)})
        meta.append(("deletion", alts, orders))
        reqs.append({"op": "kalt.partition", "alts": alts, "orders": orders})
        expected.append({"axes": [list(a) for a in axes]})
        meta.append(("partition", alts, orders))
        # the Python answers against the verified certificate checkers of the specification (and, on a sample
        # of small profiles, the optimum against the verified brute force)
        brute = len(alts) <= 6 and rng.random() < 0.1
        reqs.append({"op": "dom.nearly", "alts": alts, "orders": [[[a] for a in o] for o in orders], "brute": brute,
                     "certs": {"dp_axis": list(axis), "dp_deleted": list(removed), "axes": [list(a) for a in axes]}})
        expected.append({"dpCert": True, "axesCert": True, "minAlt": len(removed) if brute else None})
        meta.append(("cert", alts, orders))
    inp = "\n".join(json.dumps(r) for r in reqs) + "\n"
    out = subprocess.run([DRIVER], input=inp, capture_output=True, text=True, check=True).stdout.splitlines()
    assert len(out) == len(reqs), (len(out), len(reqs))
    bad = {"sets": 0, "deletion": 0, "partition": 0, "cert": 0}
    nbrute = sum(1 for r in reqs if r.get("brute"))
    shown = 0
    for line, exp, mt in zip(out, expected, meta):
        got = json.loads(line)
        if mt[0] == "cert":
            got = {k: got.get(k) for k in exp}
        if got != exp:
            bad[mt[0]] += 1
            if shown < 8:
                shown += 1
                print("DISAGREE", mt, "\n  python:", exp, "\n  lean:  ", got)
    print(f"set-layout cases: {nsets}, disagreements: {bad['sets']}")
    print(f"profiles: {ncases} (each: k_alternative_deletion and k_alt_partition_approx)")
    print(f"deletion disagreements: {bad['deletion']}, partition disagreements: {bad['partition']}")
    print(f"certificate checks (altDeletionCert, partitionCert; brute-force optimum on {nbrute} small profiles): "
          f"failures: {bad['cert']}")
    print("stats:", stats)
    return 1 if any(bad.values()) else 0


sys.exit(main())
