"""usage: ingest_plumbing.py <Pk> <j> -- store the behaviour-preserving rewrite of shared plumbing /tmp/mut/outp_<Pk>/h<j>.*
under harmless/<Pk>-h<j>/ after confirming it in a scratch worktree (demo exits 0 with and without it) and running ALL
twenty registered quick checks against it: every one must stay silent."""
import json, os, shutil, subprocess, sys
VERIF = os.path.dirname(os.path.dirname(os.path.abspath(__file__)))
P, K = sys.argv[1], sys.argv[2]
sid = f"{P}-h{K}"
src = f"/tmp/mut/outp_{P}"
out = os.path.join(VERIF, "harmless", sid)
os.makedirs(out, exist_ok=True)
shutil.copy(f"{src}/h{K}.diff", f"{out}/patch.diff")
shutil.copy(f"{src}/h{K}_demo.py", f"{out}/demo.py")
author = {}
try:
    author = json.load(open(f"{src}/h{K}.json"))
except Exception:
    pass
wt = f"/tmp/mut/plumb_{sid}.{os.getpid()}"
subprocess.run(["git", "-C", "/repo", "worktree", "add", "-q", "--detach", wt, "HEAD"], check=True)
env = dict(os.environ, PYTHONPATH=wt)
def demo():
    try:
        return subprocess.run(["/venv/bin/python", f"{out}/demo.py"], cwd=wt, env=env, capture_output=True, timeout=1800).returncode
    except subprocess.TimeoutExpired:
        return "timeout"
rc_clean = demo()
ok = subprocess.run(["git", "apply", f"{out}/patch.diff"], cwd=wt).returncode == 0
rc_new = demo() if ok else None
alarms, lines = [], []
if ok:
    for p in [f"C{i:02d}" for i in range(1, 21)]:
        r = subprocess.run([os.path.join(VERIF, "check"), p], cwd=VERIF, env=dict(os.environ, VERIF_REPO=wt), capture_output=True, text=True, timeout=3300)
        o = [l for l in (r.stdout + r.stderr).splitlines() if any(t in l for t in ("VIOLATION", "HARNESS", "Traceback"))][:3]
        if r.returncode != 0 or o:
            alarms.append(p)
            lines += [f"{p}: exit {r.returncode}"] + o
subprocess.run(["git", "-C", "/repo", "worktree", "remove", "--force", wt])
meta = {"id": sid, "property": "(shared plumbing: all 20 checks run)", "module": author.get("module"), "summary": author.get("summary"),
        "site": author.get("site"), "kind": author.get("kind"), "preserved": author.get("preserved"),
        "confirmed": {"demo_exit_on_clean_tree": rc_clean, "demo_exit_with_rewrite": rc_new, "patch_applies": ok},
        "checks_run": 20 if ok else 0, "alarms": alarms, "check_output": lines, "silent": ok and not alarms}
json.dump(meta, open(f"{out}/meta.json", "w"), indent=1)
print(sid, "demo clean/new", rc_clean, rc_new, "SILENT in all 20 checks" if meta["silent"] else f"ALARM {alarms} {lines[:4]}")
