"""Run EVERY OTHER registered quick check against each harmless rewrite that touches shared code (scratch worktrees, 14 in
parallel): a refactoring of plumbing must not upset a check of another property either.  usage: /venv/bin/python harness/harmcross.py"""
import json, glob, os, subprocess, sys, re
from concurrent.futures import ThreadPoolExecutor
ALL=[f"C{i:02d}" for i in range(1,21)]
jobs=[]
for d in sorted(glob.glob('/verif/harmless/*')):
    sid=os.path.basename(d); P,K=sid.split('-h')
    files=set(re.findall(r'^\+\+\+ b/(\S+)', open(d+'/patch.diff').read(), flags=re.M))
    props=[p for p in ALL if p!=P]
    shared=any(f.endswith(('ordinal.py','instance.py','categorical.py','matching.py','decorators.py','basic.py','distances.py','singlecrossing.py','consecutive_ones.py','singlepeakedness.py','k_alternative_deletion.py','pairwisecomparisons.py','utils.py','sampling.py')) for f in files)
    if not shared: continue
    if not any(f.endswith(('ordinal.py','instance.py','singlecrossing.py','singlepeakedness.py','consecutive_ones.py','k_alternative_deletion.py','distances.py','pairwisecomparisons.py')) for f in files):
        props=[p for p in props if p!='C15']
    jobs.append((P,K,props))
def run(j):
    P,K,props=j
    wt=f"/tmp/mut/hx_{P}_{K}"
    subprocess.run(["git","-C","/repo","worktree","add","-q","--detach",wt,"HEAD"],check=True)
    ok=subprocess.run(["git","apply",f"/verif/harmless/{P}-h{K}/patch.diff"],cwd=wt).returncode==0
    res=[]
    if ok:
        for p in props:
            r=subprocess.run(["/verif/check",p],cwd="/verif",env=dict(os.environ,VERIF_REPO=wt),capture_output=True,text=True,timeout=3000)
            lines=[l for l in (r.stdout+r.stderr).splitlines() if any(t in l for t in ("VIOLATION","HARNESS","Traceback"))]
            if r.returncode!=0 or lines: res.append((p,r.returncode,lines[:3]))
    subprocess.run(["git","-C","/repo","worktree","remove","--force",wt])
    return (f"{P}-h{K}", ok, res)
print(len(jobs),"rewrites touch shared code")
with ThreadPoolExecutor(14) as ex:
    for sid,ok,res in ex.map(run,jobs):
        print(sid, "applies" if ok else "DOES NOT APPLY", "ALARMS: "+repr(res) if res else "silent in every other check", flush=True)
