"""Shared machinery for the file-format properties (C01, C08, C09, C10, C16): instance <-> JSON,
generators, running the real writers/parsers on temporary files."""
import os
import shutil
import tempfile
import warnings

from harness.core import call
from harness import gen

META = ["file_name", "title", "description", "data_type", "modification_type", "relates_to",
        "related_files", "publication_date", "modification_date"]
META_KEYS = {"file_name": "FILE NAME", "title": "TITLE", "description": "DESCRIPTION", "data_type": "DATA TYPE",
             "modification_type": "MODIFICATION TYPE", "relates_to": "RELATES TO", "related_files": "RELATED FILES",
             "publication_date": "PUBLICATION DATE", "modification_date": "MODIFICATION DATE"}

_TMP = None


def tmpdir():
    global _TMP
    if _TMP is None:
        _TMP = tempfile.mkdtemp(prefix="prefverif-")
        import atexit
        atexit.register(lambda: shutil.rmtree(_TMP, ignore_errors=True))
    return _TMP


# ---------------------------------------------------------------- strings for names / metadata
NAME_ALPHABET = list("abcXYZ019 _-:,{}#()'\"/\\.;=+*&éßλ中🙂") + ["__1", "__2", ": ", " :", "# ", "  ", "\t"]
# characters that str.splitlines() treats as line boundaries but a text file does not: legal inside a
# field of a FILE (write -> parse_file), not in content handed to parse_str (C10 keeps them out)
EXOTIC = ["\x0b", "\x0c", "\x1c", "\x1d", "\x1e", "\x85", "\u2028", "\u2029"]
_exotic = [False]


def text_field(rng, allow_empty=True, maxlen=12):
    """single-line text without leading/trailing (Python) whitespace"""
    r = rng.random()
    if allow_empty and r < 0.12:
        return ""
    n = rng.randint(1, maxlen)
    alphabet = NAME_ALPHABET + (EXOTIC if _exotic[0] and rng.random() < 0.3 else [])
    t = "".join(rng.choice(alphabet) for _ in range(n)).strip()
    if not t and not allow_empty:
        t = "x"
    return t


def header_fields(rng, data_type, file_name=None):
    ext = data_type
    h = {k: text_field(rng) for k in META}
    h["data_type"] = data_type
    h["file_name"] = file_name or ("f" + str(rng.randint(0, 999)) + "." + ext)
    if rng.random() < 0.5:
        h["modification_type"] = rng.choice(["original", "induced", "imbued", "synthetic"])
    return h


def alt_names(rng, alts, style=None):
    style = style or rng.choice(["default", "text", "text"])
    if style == "default":
        return [[a, "Alternative " + str(a)] for a in alts]
    return [[a, text_field(rng, allow_empty=rng.random() < 0.3)] for a in alts]


# ---------------------------------------------------------------- instance <-> python objects
def tup(o):
    return tuple(tuple(int(a) for a in c) for c in o)


def set_header(inst, h):
    for k in META:
        setattr(inst, k, h[k])
    inst.num_alternatives = h["num_alternatives"]
    inst.num_voters = h["num_voters"]
    inst.alternatives_name = {int(k): v for k, v in h["alternatives_name"]}


def build(j):
    """python instance from the JSON description (attributes set directly)"""
    from preflibtools.instances import OrdinalInstance, CategoricalInstance, MatchingInstance
    from preflibtools.instances.preflibinstance.matching import WeightedDiGraph
    cls = j["cls"]
    if cls == "ord":
        i = OrdinalInstance()
        set_header(i, j["header"])
        i.num_unique_orders = j["num_unique"]
        for o in j["orders"]:
            i.orders.append(tup(o))
        i.multiplicity = {tup(o): m for o, m in j["multiplicity"]}
    elif cls == "cat":
        i = CategoricalInstance()
        set_header(i, j["header"])
        i.num_unique_preferences = j["num_unique"]
        i.num_categories = j["num_categories"]
        i.categories_name = {int(k): v for k, v in j["categories_name"]}
        i.preferences = [tup(b) for b in j["preferences"]]
        i.multiplicity = {tup(b): m for b, m in j["multiplicity"]}
    else:
        i = MatchingInstance()
        set_header(i, j["header"])
        hist = j.get("history")
        final = {}
        for a, b, w in hist or []:
            final[(a, b)] = w
        if hist and final == {(a, b): w for (a, b), w in j["weights"]}:
            # the add_edge calls as they were made (overwrites included), with the graph API queried in
            # between at the recorded points: a query must not change what later calls do
            peeks = set(j.get("peeks", []))
            for k, (a, b, w) in enumerate(hist):
                i.add_edge(int(a), int(b), float(w))
                if k in peeks:
                    i.edges()
                    WeightedDiGraph.__str__(i)
                    for n in list(i.nodes()):
                        i.outgoing_edges(n)
                        i.neighbours(n)
        else:
            for (a, b), w in j["weights"]:
                i.add_edge(int(a), int(b), float(w))
        for n, _ in j["nodes"]:
            i.add_node(int(n))
        i.num_edges = j["num_edges"]
    return i


def header_of(inst):
    h = {k: getattr(inst, k) for k in META}
    h["num_alternatives"] = inst.num_alternatives
    h["num_voters"] = inst.num_voters
    h["alternatives_name"] = [[k, v] for k, v in inst.alternatives_name.items()]
    return h


def describe(inst):
    """JSON description of a python instance (all public attributes the properties talk about)"""
    n = type(inst).__name__
    if n == "OrdinalInstance":
        return {"cls": "ord", "header": header_of(inst), "num_unique": inst.num_unique_orders,
                "preferences_same": [tup(o) for o in getattr(inst, "preferences", inst.orders)] == [tup(o) for o in inst.orders],
                "orders": [[list(c) for c in o] for o in inst.orders],
                "multiplicity": [[[list(c) for c in o], m] for o, m in inst.multiplicity.items()]}
    if n == "CategoricalInstance":
        return {"cls": "cat", "header": header_of(inst), "num_unique": inst.num_unique_preferences,
                "num_categories": inst.num_categories,
                "categories_name": [[k, v] for k, v in inst.categories_name.items()],
                "preferences": [[list(c) for c in b] for b in inst.preferences],
                "multiplicity": [[[list(c) for c in b], m] for b, m in inst.multiplicity.items()]}
    return {"cls": "mat", "header": header_of(inst), "num_edges": inst.num_edges,
            "nodes": [[k, sorted(v)] for k, v in inst.node_mapping.items()],
            "weights": [[[a, b], repr(float(w))] for (a, b), w in inst.weights.items()],
            # the same graph through its public API
            "edges_api": [[a, b, repr(float(w))] for a, b, w in inst.edges()],
            "out_api": [[a, b, repr(float(w))] for n in inst.nodes() for a, b, w in inst.outgoing_edges(n)],
            "nodes_api": list(inst.nodes())}


def canon(d):
    """order-insensitive view of a description: what the properties compare"""
    if d is None:
        return None
    c = {"cls": d["cls"], "header": dict(d["header"])}
    c["header"]["alternatives_name"] = sorted(map(tuple, d["header"]["alternatives_name"]))
    if d["cls"] == "ord":
        c["preferences_same"] = d.get("preferences_same", True)     # `preferences` is the documented alias of `orders`
        c["num_unique"] = d["num_unique"]
        c["orders"] = sorted(repr(o) for o in d["orders"])
        c["multiplicity"] = sorted((repr(o), m) for o, m in d["multiplicity"])
    elif d["cls"] == "cat":
        c.update(num_unique=d["num_unique"], num_categories=d["num_categories"],
                 categories_name=sorted(map(tuple, d["categories_name"])),
                 preferences=sorted(repr(o) for o in d["preferences"]),
                 multiplicity=sorted((repr(o), m) for o, m in d["multiplicity"]))
    else:
        c.update(num_edges=d["num_edges"], nodes=sorted((n, tuple(sorted(s))) for n, s in d["nodes"]),
                 weights=sorted((tuple(e), w) for e, w in d["weights"]))
        flat = [[e[0], e[1], w] for e, w in d["weights"]]
        c["edges_api"] = sorted(map(tuple, d.get("edges_api", flat)))
        c["out_api"] = sorted(map(tuple, d.get("out_api", flat)))
        c["nodes_api"] = sorted(d.get("nodes_api", [n for n, _ in d["nodes"]]))
    return c


def diff(a, b, skip=()):
    """names of the fields on which two canonical descriptions differ"""
    if a is None or b is None:
        return ["<missing>"]
    out = []
    for k in a:
        if k == "header":
            for f in a["header"]:
                if f not in skip and a["header"][f] != b["header"].get(f):
                    out.append(f)
        elif k not in skip and a[k] != b.get(k):
            out.append(k)
    return out


def write_impl(inst, name):
    """write with the real writer into a fresh file; return the text"""
    path = os.path.join(tmpdir(), name)
    if os.path.exists(path):
        os.remove(path)
    r = call(inst.write, path)
    if r[0] != "ok":
        return r, path
    with open(path, "rb") as f:
        data = f.read()
    return ("ok", data.decode("utf-8")), path


def put(name, text, newline_bytes=True):
    path = os.path.join(tmpdir(), name)
    with open(path, "wb") as f:
        f.write(text.encode("utf-8"))
    return path


def float_table(text):
    """repr(float(tok)) for every third comma field of a non-header line (parameter of the model)"""
    tbl = {}
    for line in text.replace("\r\n", "\n").replace("\r", "\n").split("\n"):
        l = line.strip().replace(" ", "")
        if not l or l.startswith("#"):
            continue
        parts = l.split(",")
        if len(parts) == 3:
            try:
                tbl[parts[2]] = repr(float(parts[2]))
            except ValueError:
                pass
    return [[k, v] for k, v in tbl.items()]


def parse_impl(entry, cls, path=None, content=None, data_type=None, file_name="", autocorrect=False,
               header_only=False):
    from preflibtools.instances import OrdinalInstance, CategoricalInstance, MatchingInstance, get_parsed_instance
    C = {"ord": OrdinalInstance, "cat": CategoricalInstance, "mat": MatchingInstance}.get(cls)
    holder = {}

    def run():
        if entry == "get":
            holder["i"] = get_parsed_instance(path, autocorrect=autocorrect, header_only=header_only)
            return
        i = C()
        holder["i"] = i
        if entry == "file":
            i.parse_file(path, autocorrect=autocorrect, header_only=header_only)
        elif entry == "str":
            i.parse_str(content, data_type, file_name=file_name, autocorrect=autocorrect, header_only=header_only)
        elif entry == "str_default":        # file_name left to its default
            i.parse_str(content, data_type, autocorrect=autocorrect, header_only=header_only)
        elif entry == "str_positional":     # the documented parameter order, all positional
            i.parse_str(content, data_type, file_name, autocorrect, header_only)
        elif entry == "url":
            i.parse_url("file://" + path, autocorrect=autocorrect, header_only=header_only)
        elif entry == "ctor":
            holder["i"] = C(path)
    with warnings.catch_warnings():
        warnings.simplefilter("ignore")
        r = call(run)
    inst = holder.get("i")
    return (r[0], describe(inst) if r[0] == "ok" else r[1]), (describe(inst) if inst is not None else None)


# ---------------------------------------------------------------- generators
def gen_ordinal(rng, kind=None, big=False):
    r = rng.random()
    if r < 0.02:
        # scale: hundreds of distinct ballots (files of 8 kB and more, several write batches)
        c = gen.ordinal_case(rng, m=6, n=rng.choice([140, 300, 600]), kind=kind, max_mult=rng.choice([3, 1200]),
                             allow_big=False)
    elif r < 0.04:
        # scale: more than a hundred alternatives (headers of several kB), few ballots
        c = gen.ordinal_case(rng, m=rng.choice([101, 130, 260]), n=rng.randint(1, 3), kind=kind, max_mult=3,
                             allow_big=False, style="1m")
    else:
        c = gen.ordinal_case(rng, m=rng.randint(1, 7 if big else 5), n=rng.randint(1, 7 if big else 5), kind=kind,
                             max_mult=rng.choice([1, 3, 3, 12, 120]), tie_p=rng.choice([0.2, 0.5, 0.8]))
    alts = sorted(c["alts"]) if rng.random() < 0.5 else c["alts"]
    extra = rng.random() < 0.2 and c["type"] in ("soi", "toi")
    if extra:
        alts = alts + [max(alts) + rng.randint(1, 30)]
    declared = c["type"]
    if rng.random() < 0.2:
        # a declared type may be more general than what the ballots happen to be
        more = {"soc": ["soi", "toc", "toi"], "soi": ["toi"], "toc": ["toi"], "toi": []}[declared]
        if more:
            declared = rng.choice(more)
    h = header_fields(rng, declared)
    h["num_alternatives"] = len(alts)
    h["num_voters"] = sum(m for _, m in c["profile"])
    h["alternatives_name"] = alt_names(rng, alts)
    return {"cls": "ord", "header": h, "num_unique": len(c["profile"]),
            "orders": [o for o, _ in c["profile"]], "multiplicity": [[o, m] for o, m in c["profile"]]}


def gen_categorical(rng):
    big = rng.random() < 0.08          # two-digit numbers of alternatives and ballots
    scale = rng.random() < 0.03        # hundreds of ballots (files of 8 kB and more) or dozens of alternatives per line
    m = rng.randint(9, 13) if big else rng.randint(1, 6)
    if scale:
        m = rng.choice([8, 40, 70])
    k = rng.choice([1, 2, 3, 4, 2, 3, 10, 12])
    alts = gen.alt_ids(rng, m)
    prefs, seen = [], set()
    for _ in range((rng.choice([300, 650]) if m == 8 else 4) if scale else (rng.randint(8, 16) if big else rng.randint(1, 6))):
        chosen = gen.perm(rng, alts)[: rng.randint(0, m)]
        cuts = sorted(rng.randint(0, len(chosen)) for _ in range(k - 1))
        b = [sorted(chosen[a:b]) if rng.random() < 0.5 else chosen[a:b] for a, b in zip([0] + cuts, cuts + [len(chosen)])]
        if repr(b) in seen:
            continue
        seen.add(repr(b))
        prefs.append(b)
    mults = [1, 1, 2, 3, 15] if not (big or scale) else [1, 2, 15, 999, 1000, 2 ** 53 + 1, 10 ** 18]
    mult = [[b, rng.choice(mults)] for b in prefs]
    h = header_fields(rng, "cat")
    h["num_alternatives"] = m
    h["num_voters"] = sum(x for _, x in mult)
    h["alternatives_name"] = alt_names(rng, alts)
    return {"cls": "cat", "header": h, "num_unique": len(prefs), "num_categories": k,
            "categories_name": [[i + 1, text_field(rng, allow_empty=rng.random() < 0.2)] for i in range(k)],
            "preferences": prefs, "multiplicity": mult}


def gen_weight(rng):
    import struct
    r = rng.random()
    if r < 0.25:
        return float(rng.randint(-50, 50))
    if r < 0.45:
        return rng.choice([1 / 3, -2 / 3, 0.1, 1e300, -1e-300, 5e-324, 2.0 ** 53 + 2, 1e22, 1e21, 123456789.125,
                           -0.0, 0.0, 1e16, 9007199254740993.0, 1.7976931348623157e308, 2.2250738585072014e-308])
    if r < 0.75:
        return rng.uniform(-1000, 1000)
    while True:
        x = struct.unpack("<d", struct.pack("<Q", rng.getrandbits(64)))[0]
        if x == x and x not in (float("inf"), float("-inf")):
            return x


def gen_matching(rng):
    big = rng.random() < 0.08          # two-digit numbers of nodes and edges
    scale = rng.random() < 0.02        # more than a thousand edges (files of 8 kB and more, several write batches)
    m = rng.randint(10, 14) if big else rng.randint(1, 6)
    if scale:
        m = 40
    alts = gen.alt_ids(rng, m)
    nodes, weights = [], []

    def add_node(n):
        if n not in [x[0] for x in nodes]:
            nodes.append([n, []])

    history = []
    for _ in range(rng.choice([1100, 2300]) if scale else (rng.randint(15, 40) if big else rng.randint(1, 10))):
        a, b = rng.choice(alts), rng.choice(alts)
        if rng.random() < 0.15:
            b = a
        if history and rng.random() < 0.2:
            a, b = rng.choice(history)[:2]          # overwrite an existing edge
        add_node(a)
        add_node(b)
        w = repr(gen_weight(rng))
        history.append([a, b, w])
        for x in nodes:
            if x[0] == a and b not in x[1]:
                x[1].append(b)
        for e in weights:
            if e[0] == [a, b]:
                e[1] = w
                break
        else:
            weights.append([[a, b], w])
    for x in nodes:
        x[1] = sorted(x[1])
    h = header_fields(rng, "wmd")
    h["num_alternatives"] = m
    h["num_voters"] = m
    h["alternatives_name"] = alt_names(rng, alts)
    peeks = [k for k in range(len(history)) if rng.random() < 0.3]
    return {"cls": "mat", "header": h, "num_edges": len(weights), "nodes": nodes, "weights": weights,
            "history": history, "peeks": peeks}
