"""Record the AST fingerprints of the anchored functions of every property for the tree the models
were last validated against (run on the clean, repaired tree)."""
import json, os, sys
sys.path.insert(0, os.path.dirname(os.path.dirname(os.path.abspath(__file__))))
sys.path.insert(0, os.environ.get("VERIF_REPO", "/repo"))
from harness import props
from harness.core import fingerprint, VERIF
out = {P.id: fingerprint(P.anchors) for P in props.all_props() if P.anchors}
json.dump(out, open(os.path.join(VERIF, "harness", "fingerprints.json"), "w"), indent=1, sort_keys=True)
print(out)
