"""usage: remeta.py <seeded-id> <note>  -- re-run the property's quick check against a scratch worktree carrying the
seeded change (wtcheck.sh) and record the new output in seeded/<id>/meta.json with a `detected_after` note."""
import json, os, subprocess, sys
VERIF = os.path.dirname(os.path.dirname(os.path.abspath(__file__)))
sid, note = sys.argv[1], sys.argv[2]
other = sys.argv[3] if len(sys.argv) > 3 else None     # the registered check of ANOTHER property that reports it
f = os.path.join(VERIF, "seeded", sid, "meta.json")
m = json.load(open(f))
out = subprocess.run([os.path.join(VERIF, "wtcheck.sh"), sid, other or m["property"]], capture_output=True, text=True).stdout
lines = [l.split(": ", 1)[1] if l.startswith(sid + " ") else l for l in out.splitlines() if l.strip() and "conda" not in l]
det = any("VIOLATION property=" in l for l in lines)
if det and other:
    m["detected_by"] = other
    m["other_check_output"] = lines
    m["detected_after"] = note
    json.dump(m, open(f, "w"), indent=1)
elif det:
    m["check_output"] = lines
    m["detected"] = True
    m["detected_after"] = note
    json.dump(m, open(f, "w"), indent=1)
print(sid, "DETECTED" if det else "STILL MISSED")
