"""Core of the correspondence harness: Lean build + axiom audit, driver transport,
case loop, shrinking, known findings, replay files and evidence.

Every property module in harness/props/ exposes a subclass of `Prop`.
"""
from __future__ import annotations

import contextlib
import fcntl
import gc
import hashlib
import json
import os
import random
import re
import signal
import subprocess
import sys
import time
import traceback

VERIF = os.path.dirname(os.path.dirname(os.path.abspath(__file__)))
LEAN_DIR = os.path.join(VERIF, "lean")
REPO = os.environ.get("VERIF_REPO", "/repo")
DRIVER = os.environ.get("VERIF_DRIVER") or os.path.join(LEAN_DIR, ".lake", "build", "bin", "prefdriver")   # override: experiments only
CACHE = os.path.join(LEAN_DIR, ".lake", "verif-cache")
STD_AXIOMS = {"propext", "Classical.choice", "Quot.sound"}
FORBIDDEN = re.compile(
    r"\bsorry\b|\badmit\b|^\s*axiom\s|native_decide|bv_decide|implemented_by|\bunsafe\s|maxHeartbeats\s+0\b"
)


class HarnessError(Exception):
    pass


# --------------------------------------------------------------------------
# Lean side: build, audit


def _lean_sources():
    out = []
    for root, dirs, files in os.walk(LEAN_DIR):
        dirs[:] = [d for d in dirs if d != ".lake"]
        for f in files:
            if f.endswith(".lean") or f == "lakefile.toml":
                out.append(os.path.join(root, f))
    return sorted(out)


def lean_hash():
    h = hashlib.sha256()
    for p in _lean_sources():
        if os.path.basename(p) == "Audit.lean":
            continue
        h.update(p.encode())
        with open(p, "rb") as f:
            h.update(f.read())
    return h.hexdigest()


@contextlib.contextmanager
def _lock():
    os.makedirs(os.path.join(LEAN_DIR, ".lake"), exist_ok=True)
    with open(os.path.join(LEAN_DIR, ".lake", "verif.lock"), "w") as lk:
        fcntl.flock(lk, fcntl.LOCK_EX)
        try:
            yield
        finally:
            fcntl.flock(lk, fcntl.LOCK_UN)


def strip_comments(src: str) -> str:
    """Remove Lean comments (nested block comments and line comments)."""
    out = []
    i, depth, n = 0, 0, len(src)
    while i < n:
        if src.startswith("/-", i):
            depth += 1
            i += 2
        elif depth and src.startswith("-/", i):
            depth -= 1
            i += 2
        elif depth:
            if src[i] == "\n":
                out.append("\n")
            i += 1
        elif src.startswith("--", i):
            while i < n and src[i] != "\n":
                i += 1
        else:
            out.append(src[i])
            i += 1
    return "".join(out)


def grep_forbidden():
    hits = []
    for p in _lean_sources():
        if not p.endswith(".lean"):
            continue
        with open(p, encoding="utf-8") as f:
            code = strip_comments(f.read())
        for n, line in enumerate(code.split("\n"), 1):
            if FORBIDDEN.search(line):
                hits.append(f"{os.path.relpath(p, LEAN_DIR)}:{n}: {line.strip()}")
    return hits


def all_theorems():
    from harness import props

    names = []
    for P in props.all_props():
        for t in P.theorems:
            if t not in names:
                names.append(t)
    return names


def build_and_audit():
    """Build the Lean project and return {theorem: sorted axioms | None}.

    Cached on the hash of the Lean sources: the Lean side does not depend on
    /repo (the model is hand-written), so it only changes when /verif changes."""
    with _lock():
        key = lean_hash()
        # the cache also depends on which theorems are audited
        tkey = hashlib.sha256("\n".join(all_theorems()).encode()).hexdigest()[:12]
        cache_file = os.path.join(CACHE, key + "-" + tkey + ".json")
        if os.path.exists(cache_file) and os.path.exists(DRIVER):
            with open(cache_file) as f:
                return json.load(f)
        t0 = time.time()
        r = subprocess.run(
            ["lake", "build", "PrefVerif", "prefdriver"],
            cwd=LEAN_DIR, capture_output=True, text=True,
        )
        build_ok = r.returncode == 0
        build_log = (r.stdout + r.stderr)[-6000:]
        if not os.path.exists(DRIVER):
            raise HarnessError("lean driver did not build:\n" + build_log)
        thms = all_theorems()
        audit_src = "import PrefVerif\n" + "".join(f"#print axioms {t}\n" for t in thms)
        audit_path = os.path.join(LEAN_DIR, "Audit.lean")
        with open(audit_path, "w") as f:
            f.write(audit_src)
        res = {t: None for t in thms}
        if build_ok:
            r = subprocess.run(
                ["lake", "env", "lean", "Audit.lean"], cwd=LEAN_DIR,
                capture_output=True, text=True,
            )
            text = r.stdout + r.stderr
            for m in re.finditer(
                r"'([^']+)' depends on axioms: \[([^\]]*)\]", text, flags=re.S
            ):
                res[m.group(1)] = sorted(a.strip() for a in m.group(2).split(",") if a.strip())
            for m in re.finditer(r"'([^']+)' does not depend on any axioms", text):
                res[m.group(1)] = []
        out = {
            "build_ok": build_ok,
            "build_log": "" if build_ok else build_log,
            "axioms": res,
            "forbidden": grep_forbidden(),
            "lean_hash": key,
            "wall_s": round(time.time() - t0, 1),
        }
        os.makedirs(CACHE, exist_ok=True)
        with open(cache_file, "w") as f:
            json.dump(out, f)
        return out


NS_MODULE = {"C04c": "C04Complete", "C03c": "C03Complete", "C13c": "C13Complete", "ILPP": "ILP"}


def leanchecker(theorems, lean_key):
    """thorough tier: re-check the compiled Props modules of these theorems with Lean's independent
    checker (`leanchecker` replays every declaration of the .olean files through the kernel)."""
    mods = []
    for t in theorems:
        parts = t.split(".")
        if len(parts) >= 3 and parts[0] == "PrefVerif":
            m = "PrefVerif.Props." + NS_MODULE.get(parts[1], parts[1])
            if m not in mods:
                mods.append(m)
    out = {}
    with _lock():
        for m in mods:
            cf = os.path.join(CACHE, f"leanchecker-{lean_key}-{m}.json")
            if os.path.exists(cf):
                out[m] = json.load(open(cf))
                continue
            t0 = time.time()
            r = subprocess.run(["lake", "env", "leanchecker", m], cwd=LEAN_DIR, capture_output=True, text=True)
            res = {"ok": r.returncode == 0, "wall_s": round(time.time() - t0, 1),
                   "output": (r.stdout + r.stderr)[-500:]}
            os.makedirs(CACHE, exist_ok=True)
            json.dump(res, open(cf, "w"))
            out[m] = res
    return out


def run_driver(requests):
    """Send one JSON request per line to the Lean driver, return the parsed replies."""
    if not requests:
        return []
    data = "".join(json.dumps(r, separators=(",", ":")) + "\n" for r in requests)
    if os.environ.get("VERIF_DUMP_REQUESTS"):        # debugging aid: keep the batch sent to the driver
        with open(os.environ["VERIF_DUMP_REQUESTS"], "a") as f:
            f.write(data)
    r = subprocess.run([DRIVER], input=data.encode(), capture_output=True)
    if r.returncode != 0:
        raise HarnessError(f"driver exit {r.returncode}: {r.stderr.decode()[-2000:]}")
    lines = r.stdout.decode().split("\n")
    if lines and lines[-1] == "":
        lines.pop()
    if len(lines) != len(requests):
        raise HarnessError(f"driver returned {len(lines)} lines for {len(requests)} requests")
    return [json.loads(l) for l in lines]


# --------------------------------------------------------------------------
# running the implementation


class Timeout(Exception):
    pass


@contextlib.contextmanager
def time_limit(seconds):
    def handler(signum, frame):
        raise Timeout()

    # CPU time of this process, not wall-clock time: a loaded or stalled machine cannot turn a call that
    # terminates into a "did not return" (the run as a whole has a wall-clock watchdog: exit 2)
    old = signal.signal(signal.SIGVTALRM, handler)
    signal.setitimer(signal.ITIMER_VIRTUAL, seconds)
    try:
        yield
    finally:
        signal.setitimer(signal.ITIMER_VIRTUAL, 0)
        signal.signal(signal.SIGVTALRM, old)


@contextlib.contextmanager
def quiet_fd1():
    """Silence C-level writes to stdout (CBC) while the implementation runs."""
    sys.stdout.flush()
    saved = os.dup(1)
    dn = os.open(os.devnull, os.O_WRONLY)
    os.dup2(dn, 1)
    try:
        yield
    finally:
        sys.stdout.flush()
        os.dup2(saved, 1)
        os.close(saved)
        os.close(dn)


def exc_class(e: BaseException) -> str:
    """Map an exception to the small enum the properties talk about."""
    n = type(e).__name__
    if isinstance(e, Timeout):
        return "Timeout"
    if n == "PreferenceIncompatibleError":
        return "refused"
    if isinstance(e, TypeError):
        return "TypeError"
    if isinstance(e, ValueError):
        return "ValueError"
    return "other:" + n


def call(f, *a, limit=20.0, **kw):
    """Run f; return ("ok", value) or ("exc", class-name)."""
    try:
        with time_limit(limit):
            return ("ok", f(*a, **kw))
    except Timeout as e:
        return ("exc", "Timeout")
    except RecursionError:
        return ("exc", "other:RecursionError")
    except Exception as e:  # noqa
        return ("exc", exc_class(e))


# --------------------------------------------------------------------------
# problems


class Problem:
    """kind: 'violation' (the implementation breaks the property on `case`, judged by the
    Lean spec evaluators) or 'disagreement' (model and implementation differ on an observable)."""

    def __init__(self, kind, case, what, site="", detail=None):
        self.kind = kind
        self.case = case
        self.what = what
        self.site = site
        self.detail = detail or {}

    def to_json(self):
        return {"kind": self.kind, "what": self.what, "site": self.site,
                "case": self.case, "detail": self.detail}


class Prop:
    id = "C00"
    level = "proof"
    theorems: list = []
    design_ref = ""
    level_text = ""
    level_note = ""
    technique = "Lean 4 proof about executable model + model/implementation correspondence check"
    trusted_base: list = []
    assumptions: list = []
    rule = ""
    # budget of generated cases per tier
    budget = {"quick": 200, "thorough": 2000}
    impl_limit = 20.0
    anchors: list = []  # (module, qualname) pairs used for the source fingerprint

    def __init__(self, seed=0, tier="quick"):
        self.seed = seed
        self.tier = tier
        self.dist = {}

    # --- to implement
    def generate(self, rng, n, deep=False):
        raise NotImplementedError

    def run_impl(self, case):
        raise NotImplementedError

    def requests(self, case, obs):
        """JSON requests for the Lean driver for this case (list)."""
        raise NotImplementedError

    def judge(self, case, obs, replies):
        """Return a list of Problem."""
        raise NotImplementedError

    def nontrivial_key(self, case, obs):
        """None for a trivial case, otherwise a hashable key identifying the case."""
        return json.dumps(case, sort_keys=True)

    def shrink_candidates(self, case):
        return []

    def finding_predicates(self):
        """name -> predicate(problem) for known findings."""
        return {}

    def corpus(self):
        path = os.path.join(VERIF, "corpus", self.id + ".jsonl")
        if not os.path.exists(path):
            return []
        with open(path) as f:
            return [json.loads(l) for l in f if l.strip()]

    # --- helpers
    def count(self, key, n=1):
        self.dist[key] = self.dist.get(key, 0) + n

    def evaluate(self, cases, keys=None):
        """Run impl + model on cases; return (problems, observations).  Long case lists are processed in chunks so
        that observations and driver replies of large cases are not all held at once; with `keys` (a set) the
        non-trivial keys are collected per chunk and the observations are dropped (None is returned for them)."""
        if len(cases) > 120:
            problems, obs = [], []
            for i in range(0, len(cases), 100):
                p, o = self.evaluate(cases[i:i + 100], keys=keys)
                problems.extend(p)
                if keys is None:
                    obs.extend(o)
            return problems, (obs if keys is None else None)
        obs = []
        with quiet_fd1():
            for i, c in enumerate(cases):
                obs.append(self.run_impl(c))
                if i % 10 == 9:
                    gc.collect()        # see main(): cyclic garbage is collected here, at a safe point
        reqs, spans = [], []
        for c, o in zip(cases, obs):
            rs = self.requests(c, o)
            spans.append((len(reqs), len(reqs) + len(rs)))
            reqs.extend(rs)
        replies = run_driver(reqs)
        problems = []
        for c, o, (a, b) in zip(cases, obs, spans):
            for rep in replies[a:b]:
                if isinstance(rep, dict) and "error" in rep:
                    raise HarnessError(f"driver error {rep['error']} on case {json.dumps(c)[:400]}")
            problems.extend(self.judge(c, o, replies[a:b]))
        if keys is not None:
            for c, o in zip(cases, obs):
                k = self.nontrivial_key(c, o)
                if k is not None:
                    keys.add(hashlib.sha256(k.encode()).hexdigest()[:16] if len(k) > 64 else k)
        return problems, obs

    def still_fails(self, case, what_kind):
        try:
            probs, _ = self.evaluate([case])
        except HarnessError:
            return None
        for p in probs:
            if p.kind == what_kind[0] and p.site == what_kind[1]:
                return p
        return None

    def shrink(self, problem, budget_s=20.0):
        t0 = time.time()
        cur = problem
        improved = True
        while improved and time.time() - t0 < budget_s:
            improved = False
            for cand in self.shrink_candidates(cur.case):
                if time.time() - t0 > budget_s:
                    break
                p = self.still_fails(cand, (cur.kind, cur.site))
                if p is not None:
                    cur = p
                    improved = True
                    break
        return cur


# --------------------------------------------------------------------------
# source fingerprints


def fingerprint(anchors):
    import ast
    import importlib
    import inspect

    h = hashlib.sha256()
    # the anchored functions, the whole modules they live in, and the instance classes every property's
    # inputs are built with (a change there — a cache, a new helper — can break a property from upstream)
    mods = sorted({mod for mod, _ in anchors} | {"preflibtools.instances.preflibinstance.ordinal",
                                                "preflibtools.instances.preflibinstance.instance"})
    for mod, qual in list(anchors) + [(m, "") for m in mods]:
        try:
            m = importlib.import_module(mod)
            obj = m
            for part in (qual.split(".") if qual else []):
                obj = getattr(obj, part)
            obj = inspect.unwrap(obj)
            src = inspect.getsource(obj)
            import textwrap

            tree = ast.parse(textwrap.dedent(src))
            for node in ast.walk(tree):
                # drop docstrings
                if isinstance(node, (ast.FunctionDef, ast.ClassDef, ast.Module)) and node.body \
                        and isinstance(node.body[0], ast.Expr) \
                        and isinstance(getattr(node.body[0], "value", None), ast.Constant) \
                        and isinstance(node.body[0].value.value, str):
                    node.body = node.body[1:] or [ast.Pass()]
            h.update(ast.dump(tree).encode())
        except Exception as e:  # noqa
            h.update(f"ERR {mod}.{qual} {type(e).__name__}".encode())
    return h.hexdigest()[:16]


def load_fingerprints():
    p = os.path.join(VERIF, "harness", "fingerprints.json")
    if os.path.exists(p):
        with open(p) as f:
            return json.load(f)
    return {}


# --------------------------------------------------------------------------
# known findings


def load_findings():
    p = os.path.join(VERIF, "known_findings.json")
    if not os.path.exists(p):
        return []
    with open(p) as f:
        return json.load(f)["findings"]


# --------------------------------------------------------------------------
# the check run


def jsonable(o):
    if isinstance(o, dict):
        return {(k if isinstance(k, (str, int, float, bool)) or k is None else repr(k)): jsonable(v)
                for k, v in o.items()}
    if isinstance(o, (list, tuple, set, frozenset)):
        return [jsonable(x) for x in (sorted(o, key=repr) if isinstance(o, (set, frozenset)) else o)]
    if isinstance(o, (str, int, float, bool)) or o is None:
        return o
    return repr(o)


def write_json(path, obj):
    obj = jsonable(obj)
    os.makedirs(os.path.dirname(path), exist_ok=True)
    tmp = path + ".tmp%d" % os.getpid()
    with open(tmp, "w") as f:
        json.dump(obj, f, indent=1, sort_keys=False, default=str)
    os.replace(tmp, path)


def write_replay(prop, problem, extra=None):
    blob = json.dumps(problem.to_json(), sort_keys=True, default=str)
    name = f"{prop.id}-{hashlib.sha256(blob.encode()).hexdigest()[:12]}.json"
    path = os.path.join("replays", name)
    body = {
        "property": prop.id, "seed": prop.seed, "tier": prop.tier,
        "how_to_rerun": f"./check {prop.id} --replay {path}",
    }
    body.update(problem.to_json())
    if extra:
        body.update(extra)
    write_json(os.path.join(VERIF, path), body)
    return path


def run_check(P, tier="quick", seed=0, replay=None):
    t0 = time.time()
    prop = P(seed=seed, tier=tier)
    sys.path.insert(0, REPO)
    os.chdir(VERIF)
    out_lines = []
    violations = 0

    audit = build_and_audit()
    obligations = len(prop.theorems)
    discharged = 0
    undischarged = []
    for t in prop.theorems:
        ax = audit["axioms"].get(t)
        if ax is not None and set(ax) <= STD_AXIOMS:
            discharged += 1
        else:
            undischarged.append({"theorem": t, "axioms": ax})
    forbidden = audit["forbidden"]
    proof_ok = audit["build_ok"] and not undischarged and not forbidden
    lc = None
    if tier == "thorough" and prop.theorems and not replay:
        lc = leanchecker(prop.theorems, audit["lean_hash"][:16])
        for m, r in lc.items():
            if not r["ok"]:
                proof_ok = False
                undischarged.append({"theorem": m + " (leanchecker)", "axioms": r["output"][-200:]})

    if replay:
        with open(replay) as f:
            rp = json.load(f)
        case = rp["case"]
        probs, obs = prop.evaluate([case])
        print("case:", json.dumps(case)[:2000])
        print("implementation observed:", json.dumps(obs[0], default=str)[:2000])
        if rp.get("kind") == "violation":
            probs = [p for p in probs if p.kind == "violation"]
        for p in probs:
            print(f"{p.kind}: {p.what}")
        if probs:
            print(f"VIOLATION property={prop.id} replay={replay}")
            return 1
        print("no violation on the current tree for this replay")
        return 0

    # stale replay files of earlier runs of this property
    import glob
    for old in glob.glob(os.path.join(VERIF, "replays", prop.id + "-*.json")):
        try:
            os.remove(old)
        except OSError:
            pass

    # source fingerprint: a changed anchored function switches on the deep profile
    fp_now = fingerprint(prop.anchors) if prop.anchors else ""
    fp_ref = load_fingerprints().get(prop.id)
    deep = bool(prop.anchors) and fp_ref is not None and fp_ref != fp_now
    n = prop.budget[tier] * (4 if deep and tier == "quick" else 1)

    rng = random.Random(f"{prop.id}:{seed}")
    cases = list(prop.corpus()) + list(prop.generate(rng, n, deep=deep))
    seen = set()
    problems, _ = prop.evaluate(cases, keys=seen)

    findings = [f for f in load_findings() if f["property"] == prop.id]
    preds = prop.finding_predicates()
    known_hits = {}
    real = []
    for p in problems:
        matched = None
        if p.kind == "violation":
            for f in findings:
                if f.get("status") != "known":
                    continue
                pred = preds.get(f["predicate"])
                if pred is not None and pred(p):
                    matched = f
                    break
        if matched is not None:
            known_hits.setdefault(matched["id"], (matched, p))
        else:
            real.append(p)

    searched = False
    viol = [p for p in real if p.kind == "violation"]
    dis = [p for p in real if p.kind == "disagreement"]
    if not viol and (dis or not proof_ok):
        # the proof or the correspondence no longer checks: search for a failing input
        searched = True
        rng2 = random.Random(f"{prop.id}:{seed}:search")
        extra = list(prop.generate(rng2, prop.budget[tier] * 6, deep=True))
        by_site = {}
        for d in dis:
            by_site.setdefault(d.site, []).append(d)
        for site, ds in by_site.items():
            for d in ds[:4]:              # a few disagreeing cases per site: their neighbourhood is searched first
                extra = list(prop.shrink_candidates(d.case))[:50] + extra
        p2, _ = prop.evaluate(extra)
        for p in p2:
            if p.kind != "violation":
                continue
            hit = False
            for f in findings:
                pred = preds.get(f.get("predicate"))
                if f.get("status") == "known" and pred is not None and pred(p):
                    hit = True
            if not hit:
                viol.append(p)

    for fid, (f, p) in known_hits.items():
        out_lines.append(f"KNOWN-FINDING: property={prop.id} {f['id']}: {f['what']}")

    replay_paths = []
    if viol:
        # one replay per distinct site, shrunk
        by_site = {}
        for p in viol:
            by_site.setdefault(p.site, p)
        for site, p in by_site.items():
            p = prop.shrink(p)
            path = write_replay(prop, p)
            replay_paths.append(path)
            out_lines.append(f"VIOLATION property={prop.id} replay={path}")
            violations += 1
    elif dis or not proof_ok:
        what = []
        if not audit["build_ok"]:
            what.append("lake build failed")
        for u in undischarged:
            what.append(f"theorem {u['theorem']} not discharged (axioms={u['axioms']})")
        for h in forbidden:
            what.append("forbidden token: " + h)
        d0 = dis[0] if dis else Problem("disagreement", None, "; ".join(what), site="lean")
        if dis:
            d0 = prop.shrink(d0)
        path = write_replay(prop, d0, {
            "no_longer_checks": what + [f"correspondence {d.site}: {d.what}" for d in dis[:5]],
            "searched": searched,
        })
        out_lines.append(f"VIOLATION property={prop.id} replay={path} no-failing-input-found")
        violations += 1

    wall = time.time() - t0
    samples = []
    pick = cases[:: max(1, len(cases) // 3)][:3]
    try:
        _, pick_obs = prop.evaluate(pick)          # re-observed: the observations of the main pass are not kept
    except Exception:
        pick_obs = [None] * len(pick)
    for c, o in zip(pick, pick_obs):
        c, o = jsonable(c), jsonable(o)
        cj = json.dumps(c, default=str)
        samples.append({"case": c if len(cj) < 4000 else cj[:4000] + " …(truncated)",
                        "implementation": o if len(json.dumps(o, default=str)) < 4000 else "(large; omitted)"})
    evidence = {
        "property_id": prop.id,
        "tier": tier,
        "seed": seed,
        "level": prop.level,
        "coverage": {
            "obligations": obligations,
            "discharged": discharged,
            "checker_cmd": "cd lean && lake build PrefVerif prefdriver && lake env lean Audit.lean  (# print axioms per theorem; cached on the hash of the Lean sources)",
            "trusted_base": [
                "Lean 4.33.0 kernel; axioms allowed: propext, Classical.choice, Quot.sound",
                "hand-written Lean model + this correspondence check (harness, line protocol, driver parser)",
            ] + list(prop.trusted_base),
            "theorems": [{"name": t, "axioms": audit["axioms"].get(t)} for t in prop.theorems],
            "evaluations": len(cases),
            "distinct_nontrivial": len(seen),
            "rule": prop.rule,
            "samples": samples,
            "disagreements_checked": len(cases),
            "disagreements_found": len(dis),
            "known_findings_hit": sorted(known_hits),
            "input_distribution": dict(sorted(prop.dist.items())),
            "deep_profile": deep,
            "source_fingerprint": fp_now,
            "failing_input_search_ran": searched,
            "lean_sources_hash": audit["lean_hash"][:16],
            "leanchecker": lc,
            "explanation": prop.__doc__ or "",
        },
        "assumptions": [prop.level_note] * bool(prop.level_note) + list(prop.assumptions),
        "wall_s": round(wall, 2),
        "violations": violations,
    }
    if obligations == 0:
        # no theorem registered (yet): do not present empty proof keys
        for k in ("obligations", "discharged"):
            evidence["coverage"].pop(k)
    write_json(os.path.join(VERIF, "evidence", prop.id + ".json"), evidence)
    for l in out_lines:
        print(l)
    print(f"{prop.id} {tier} seed={seed}: {len(cases)} cases, {len(seen)} distinct non-trivial, "
          f"theorems {discharged}/{obligations}, disagreements {len(dis)}, violations {violations}, "
          f"{wall:.1f}s")
    return 1 if violations else 0


def main(argv):
    import argparse
    from harness import props

    ap = argparse.ArgumentParser()
    ap.add_argument("prop")
    ap.add_argument("--tier", default=os.environ.get("VERIF_TIER", "quick"))
    ap.add_argument("--replay")
    a = ap.parse_args(argv)
    tier = os.environ.get("VERIF_TIER") or a.tier
    if tier not in ("quick", "thorough"):
        tier = "quick"
    try:
        seed = int(os.environ.get("VERIF_SEED", "0"))
    except ValueError:
        seed = 0
    # The automatic cyclic garbage collector is switched off and run by hand between cases: python-mip frees a
    # CBC model in a finalizer that goes through cffi's (non-reentrant) library lock, and a collection that
    # happens to start while that lock is held deadlocks the process (observed once in about forty runs of C15).
    gc.disable()
    # address-space cap (inherited by the Lean driver): a runaway allocation ends this check with exit 2
    # instead of taking the machine down
    try:
        import resource
        cap = int(float(os.environ.get("VERIF_MEM_GB", "24")) * 2 ** 30)
        resource.setrlimit(resource.RLIMIT_AS, (cap, cap))
    except Exception:
        pass
    # whole-check watchdog: a hang is a harness problem (exit 2), never a violation
    import threading
    limit = float(os.environ.get("VERIF_TIMEOUT", "3300" if tier == "quick" else "14000"))

    def _die():
        sys.stderr.write(f"HARNESS ERROR: check exceeded {limit:.0f}s\n")
        sys.stderr.flush()
        os._exit(2)
    wd = threading.Timer(limit, _die)
    wd.daemon = True
    wd.start()
    try:
        P = props.get(a.prop)
        return run_check(P, tier=tier, seed=seed, replay=a.replay)
    except HarnessError as e:
        print("HARNESS ERROR:", e, file=sys.stderr)
        return 2
    except Exception:
        traceback.print_exc()
        return 2
