"""Self-test of the Python-semantics layer (lean/PrefVerif/Py/Str.lean and the regex scanners)
against CPython: exhaustive over all code points for the two character tables, random strings
for the primitives."""
import re

from harness.core import run_driver

ORDER_RE = re.compile(r"\{[\d,]+?\}|[\d,]+")
CAT_RE = re.compile(r"{[\d,]+?}|[\d,]+|{}")
ALT_RE = re.compile(r"# ALTERNATIVE NAME (\d+): ?(.*)")


def py_scan(pattern, s, cat):
    out = []
    for g in re.findall(pattern, s):
        if cat and g == "{}":
            out.append([])
        elif g.startswith("{"):
            out.append([int(a.strip()) for a in g[1:-1].split(",") if len(a) > 0])
        else:
            for a in g.split(","):
                if len(a) > 0:
                    out.append([int(a.strip())])
    return out


def check_tables():
    rep = run_driver([{"op": "io.tables"}])[0]
    sp = [n for n in range(0x110000) if not (0xD800 <= n <= 0xDFFF) and chr(n).isspace()]
    lb = [n for n in range(0x110000) if not (0xD800 <= n <= 0xDFFF) and len(("a" + chr(n) + "b").splitlines()) == 2]
    errs = []
    if rep["isspace"] != sp:
        errs.append("isSpace table differs from str.isspace: " + repr(set(rep["isspace"]) ^ set(sp)))
    if rep["linebreak"] != lb:
        errs.append("isLineBreak table differs from str.splitlines: " + repr(set(rep["linebreak"]) ^ set(lb)))
    return errs


def check_prims(rng, n=300):
    alpha = list("0123456789,,{{}}  :#ab\t\n\r\x0b\x0c\x1c\x85  é") + ["\r\n", ", ", "# ALTERNATIVE NAME ", "12", ": "]
    strs = ["", " ", "\r\n", "1,2,{3,4},5", "{1,2},{},3", "{,}", "{}", "{1", "1}", "{{1}}", "# ALTERNATIVE NAME 3: x",
            "# ALTERNATIVE NAME 3:", "# ALTERNATIVE NAME 12: a: b", "# ALTERNATIVE NAME x: y", " 12 ", "1_2", "+3", "-3"]
    for _ in range(n):
        strs.append("".join(rng.choice(alpha) for _ in range(rng.randint(0, 14))))
    reqs = []
    for t in strs:
        reqs += [{"op": "io.prim", "s": t}, {"op": "io.prim", "s": "".join(t.split())},
                 {"op": "io.prim", "s": t.strip()}]
    allreps = run_driver(reqs)
    errs = []
    import io
    for idx, t in enumerate(strs):
        r, r2, r3 = allreps[3 * idx: 3 * idx + 3]
        digits_only = all((not ch.isdigit()) or ch in "0123456789" for ch in t)
        exp = {
            "strip": t.strip(), "removeWs": "".join(t.split()), "removeSpaces": t.replace(" ", ""),
            "stripCommaSpace": t.strip(", "), "splitlines": t.splitlines(),
            "splitColon": t.split(":"),
        }
        # universal-newline readlines
        exp["readlines"] = io.TextIOWrapper(io.BytesIO(t.encode("utf-8")), encoding="utf-8", newline=None).readlines()
        for k, v in exp.items():
            if r[k] != v:
                errs.append(f"{k}({t!r}): lean {r[k]!r} python {v!r}")
        u = t.strip()
        py_int = int(u) if (u.isascii() and u.isdigit()) else None
        if r["toNat"] != py_int:
            errs.append(f"toNat({t!r}): lean {r['toNat']} python {py_int}")
        nows = "".join(t.split())
        if digits_only:
            if r2["scanOrder"] != py_scan(ORDER_RE, nows, False):
                errs.append(f"scanOrder({nows!r}): lean {r2['scanOrder']} python {py_scan(ORDER_RE, nows, False)}")
            if r2["scanBallot"] != py_scan(CAT_RE, nows, True):
                errs.append(f"scanBallot({nows!r}): lean {r2['scanBallot']} python {py_scan(CAT_RE, nows, True)}")
        line = t.strip()
        m = ALT_RE.match(line)
        exp_m = [int(m.group(1)), m.group(2)] if m else None
        if r3["altName"] != exp_m:
            errs.append(f"altName({line!r}): lean {r3['altName']} python {exp_m}")
    return errs
