"""Capture the linear programme the library hands to python-mip (constraints and solution), in a
canonical exact form, by wrapping mip.Model.optimize from outside (no hook in /repo)."""
import contextlib
from fractions import Fraction


def canon_constraint(terms, sense, rhs):
    acc = {}
    for coef, name in terms:
        acc[name] = acc.get(name, Fraction(0)) + Fraction(coef)
    items = tuple(sorted((n, c) for n, c in acc.items() if c != 0))
    return (items, sense, Fraction(rhs))


@contextlib.contextmanager
def capture(store):
    import mip
    orig = mip.Model.optimize

    def wrapped(self, *a, **kw):
        cons = []
        for c in self.constrs:
            e = c.expr
            cons.append(canon_constraint([(Fraction(v).limit_denominator(10 ** 9), var.name) for var, v in e.expr.items()],
                                         e.sense, -Fraction(e.const).limit_denominator(10 ** 9)))
        status = orig(self, *a, **kw)
        sol = None
        try:
            if self.num_solutions:
                sol = {v.name: Fraction(v.x).limit_denominator(10 ** 6) for v in self.vars}
        except Exception:
            sol = None
        store.append({"constraints": cons, "solution": sol, "nvars": len(self.vars)})
        return status
    mip.Model.optimize = wrapped
    try:
        yield
    finally:
        mip.Model.optimize = orig


def model_constraints(reply):
    out = []
    for c in reply["constraints"]:
        terms = [(Fraction(t[0][0], t[0][1]), t[1]) for t in c["terms"]]
        out.append(canon_constraint(terms, c["sense"], Fraction(c["rhs"][0], c["rhs"][1])))
    return out
