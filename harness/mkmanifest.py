"""Regenerate MANIFEST.json from the property modules (run after adding a property)."""
import json, os, sys
sys.path.insert(0, os.path.dirname(os.path.dirname(os.path.abspath(__file__))))
from harness import props

VERIF = os.path.dirname(os.path.dirname(os.path.abspath(__file__)))
all_ids = [json.loads(l)["id"] for l in open(os.path.join(VERIF, "properties.jsonl"))]
checks = []
claimed = set()
for P in props.all_props():
    claimed.add(P.id)
    checks.append({
        "property_id": P.id,
        "quick_cmd": f"./check {P.id} --tier quick",
        "thorough_cmd": f"./check {P.id} --tier thorough",
        "evidence_file": f"evidence/{P.id}.json",
        "replay_cmd_template": f"./check {P.id} --replay {{path}}",
        "engine": "lean-proof+correspondence",
        "level_claimed": {"category": P.level, "text": P.level_text, "design_ref": P.design_ref},
        "level_note": P.level_note,
        "technique": P.technique,
    })
na_reasons = {}
p = os.path.join(VERIF, "harness", "not_applicable.json")
if os.path.exists(p):
    na_reasons = json.load(open(p))
manifest = {
    "version": 1,
    "setup_cmd": "cd lean && lake build PrefVerif prefdriver",
    "hooks": {
        "guard": "PREFLIBTOOLS_VERIF",
        "enable": "no hooks are compiled into /repo: the harness imports preflibtools from /repo's working tree "
                  "and observes it from outside (monkey-patching at run time); the guard name is reserved only",
        "baseline_off_cmd": "cd /repo && /venv/bin/python -m pytest -ra -q -p no:cacheprovider --timeout=900 --continue-on-collection-errors",
        "source_commits": [],
        "add_only": True,
    },
    "engines": [{
        "name": "lean-proof+correspondence",
        "path": "check",
        "serves_properties": sorted(claimed),
        "kind_free_text": "Lean 4 theorems about a hand-written executable model (lean/PrefVerif), audited with "
                          "#print axioms on every run, tied to /repo by a differential correspondence check "
                          "(harness/) that runs the real Python code and the compiled Lean model on the same inputs "
                          "and judges the implementation's outputs with Lean spec evaluators / verified checkers",
    }],
    "checks": checks,
    "notes": "See DESIGN.md. Exit 2 = harness error/timeout (never a violation).",
    "not_applicable": [
        {"property_id": i, "reason": na_reasons.get(i, "check under construction in this round; not claimed yet")}
        for i in all_ids if i not in claimed
    ],
}
json.dump(manifest, open(os.path.join(VERIF, "MANIFEST.json"), "w"), indent=1)
print("claimed", sorted(claimed))
