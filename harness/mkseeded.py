"""Regenerate seeded/README.md from seeded/*/meta.json."""
import glob, json, os
VERIF = os.path.dirname(os.path.dirname(os.path.abspath(__file__)))
rows = []
for f in sorted(glob.glob(os.path.join(VERIF, "seeded", "*", "meta.json"))):
    m = json.load(open(f))
    sites = sorted({l.split("replay=")[0].strip() for l in m["check_output"] if "VIOLATION" in l})
    nf = any("no-failing-input-found" in l for l in m["check_output"])
    rows.append((m["id"], m["property"], (m.get("summary") or "").replace("|", "/").replace("\n", " "),
                 (m.get("needs") or "").replace("|", "/").replace("\n", " "),
                 "detected" + (" (correspondence only: no-failing-input-found)" if nf and m["detected"] else "")
                 if m["detected"] else ("reported by " + m["detected_by"] if m.get("detected_by") else
                                        ("not reported: " + m["not_detected_reason"] if m.get("not_detected_reason") else "MISSED")),
                 m.get("detected_after", "")))
out = ["# Seeded changes", "",
       "Each directory holds one change to PrefLib/preflibtools written by a fresh sub-agent that was given only the",
       "text of one property and a private worktree (nothing from /verif): `patch.diff` (apply with",
       "`git -C /repo apply`), `demo.py` (exits 1 with the change, 0 without) and `meta.json` (what it breaks, what it",
       "needs to manifest, what was run to confirm it, and what the registered check printed).  Every change was",
       "confirmed independently: demo on the clean tree (exit 0) and with the change (exit 1), whole pytest suite with",
       "the change (102 passed, only the two offline URL tests fail).  None of them is committed in /repo.", "",
       f"{sum(1 for r in rows if r[4].startswith('detected'))} of {len(rows)} are reported by the quick check of their property, "
       f"{sum(1 for r in rows if r[4].startswith('reported by'))} by the quick check of another property, "
       f"{sum(1 for r in rows if r[4].startswith('not reported'))} deliberately not (outside the property's inputs).", "",
       "| id | property | change | needs | quick check | note |", "|---|---|---|---|---|---|"]
for r in rows:
    out.append("| " + " | ".join(str(x) for x in r) + " |")
open(os.path.join(VERIF, "seeded", "README.md"), "w").write("\n".join(out) + "\n")
print(len(rows), "seeded changes;", sum(1 for r in rows if r[4] == "MISSED"), "missed")
